"""C10 - REQUIRED parameters are filled from the config or the call fails cleanly."""
import copy
import functools
import typing

import gin
from gin import config as gc
from vf import rt
from vf import world

R = gin.REQUIRED
MODES = ['omitted', 'pos REQUIRED', 'kw REQUIRED', 'pos value', 'kw value']


# ---- extra probes (module path `vw10`), registered once per process -----------------------------
def _pf(a, b, c=3):
  world.rec('preq', a, b, c)
  return (a, b, c)


if 'vw10.NTR' not in gc._REGISTRY:

  @gin.configurable(module='vw10')
  class NTR(typing.NamedTuple):
    """built through __new__: the marker index is offset by `cls`"""
    a: int
    b: int = gin.REQUIRED

  # the marker is a keyword-only default of the partial object: signature (a, *, b=REQUIRED, c=3)
  preq = gin.external_configurable(functools.partial(_pf, b=gin.REQUIRED), 'preq', module='vw10')

  @gin.configurable('famr', module='vw10.x.m')
  def famr_x(p=gin.REQUIRED):
    world.rec('famr_x', p)
    return p

  @gin.configurable('famr', module='vw10.y.m')
  def famr_y(p=gin.REQUIRED):
    world.rec('famr_y', p)
    return p

  @gin.configurable(module='vw10')
  @world._agnostic
  def wreq(a=gin.REQUIRED, b=world.DB):
    """signature REQUIRED hidden behind a signature-agnostic functools.wraps decorator"""
    world.rec('wreq', a, b)
    return (a, b)
else:  # pragma: no cover - a second import of this module in one process
  NTR = gc._REGISTRY['vw10.NTR'].wrapper
  preq = gc._REGISTRY['vw10.preq'].wrapper
  famr_x = gc._REGISTRY['vw10.x.m.famr'].wrapper
  famr_y = gc._REGISTRY['vw10.y.m.famr'].wrapper
  wreq = gc._REGISTRY['vw10.wreq'].wrapper


_ALL_PARAM_NAMES = ('a', 'b', 'c', 'd', 'k', 'p', 'q', 'x', 'y', 'z', 'zzz', 'rest', 'self', 'kw', 'v', 'steps', 'seed', 'cls')


def _bound(active_s, p_root, v_root, p_s, v_s):
  if active_s and p_s:
    return True, v_s
  if p_root:
    return True, v_root
  return False, None


def _parse_missing(msg):
  """(text, parameter names the message lists, in order).  The wording of the message is Gin's business; the
  statement only demands that it names the configurable and exactly the unfilled parameters in signature
  order.  Today's format ("... for `sel` not provided in config: ['b', 'c']") is read as it is; any other
  wording is read tolerantly: the quoted identifiers of the first line, in order of appearance."""
  with rt.native():
    import ast
    import re
    first = msg.split('\n')[0]
    i = first.find('not provided in config: ')
    if i >= 0:
      try:
        return first, list(ast.literal_eval(first[i + len('not provided in config: '):].strip()))
      except Exception:   # pylint: disable=broad-except
        pass
    quoted = re.findall(r"""['"`]([A-Za-z_][\w./]*)['"`]""", first)
    return first, quoted


def _listed(names):
  """the parameter names among the names a message lists (other quoted words name the configurable)"""
  return [n for n in (names or []) if n in _ALL_PARAM_NAMES]


def _names_cfg(head, full):
  """Some quoted (or back-quoted) name in the message is an unambiguous spelling of the configurable registered
  as `full`: it resolves, through the public lookup, to that very configurable."""
  with rt.native():
    import re
    if head is None:
      return False
    want = gin.get_configurable(full)
    cands = re.findall(r"""['"`]([A-Za-z_][\w./]*)['"`]""", head)
    for cand in cands:
      sel = cand.rsplit('/', 1)[-1]             # a scope prefix in the spelling would be fine
      try:
        if gin.get_configurable(sel) is want:
          return True
      except Exception:   # pylint: disable=broad-except
        continue
    return rt.no('no name in the message resolves to the called configurable %r: %r' % (full, head))


def _is_missing_error(exc, missing, short, full):
  """RuntimeError naming the configurable and exactly `missing` (already in signature order)."""
  if not isinstance(exc, RuntimeError):
    with rt.native():
      return rt.no('expected RuntimeError, got %r' % (exc,))
  head, names = _parse_missing(str(exc))
  with rt.native():
    # the parameter names the message lists, in order (other quoted words - the configurable - are not parameters)
    params = set(missing) | set(_ALL_PARAM_NAMES)
    listed = [n for n in (names or []) if n in params]
    if listed != list(missing):
      return rt.no('message lists %r, expected %r (%r)' % (listed, missing, head))
  return _names_cfg(head, full)


def c10_req(nonev: int, ins: bool, ma: int, mb: int, mc: int,
            ba0: bool, ba1: bool, bb0: bool, bb1: bool, bc0: bool, bc1: bool,
            va0: int, va1: int, vb0: int, vb1: int, vc0: int, vc1: int,
            ca: int, cb: int, cc: int) -> bool:
  """
  pre: 0 <= ma < 5 and 0 <= mb < 5 and 0 <= mc < 3 and 0 <= nonev < 4
  """
  world.fresh()
  # a bound value may be a perfectly legal None (root bindings of a / b / both)
  nonev = rt.pick(nonev, 4)
  if nonev in (1, 3):
    va0 = None
  if nonev in (2, 3):
    vb0 = None
  ins = rt.flag(ins)
  ma = rt.pick(ma, 5)
  mb = rt.pick(mb, 5)
  mc = [0, 2, 4][rt.pick(mc, 3)]
  if mb in (1, 3) and ma not in (1, 3):
    rt.discard()
  pres = {}
  for key, scope, p, v in (('a0', '', ba0, va0), ('a1', 's', ba1, va1),
                           ('b0', '', bb0, vb0), ('b1', 's', bb1, vb1),
                           ('c0', '', bc0, vc0), ('c1', 's', bc1, vc1)):
    pres[key] = rt.flag(p)
    if pres[key]:
      gin.bind_parameter((scope, 'vw.req', key[0]), v)
  has_a, bnd_a = _bound(ins, pres['a0'], va0, pres['a1'], va1)
  has_b, bnd_b = _bound(ins, pres['b0'], vb0, pres['b1'], vb1)
  has_c, bnd_c = _bound(ins, pres['c0'], vc0, pres['c1'], vc1)

  pos, kw = [], {}
  if ma == 1: pos.append(R)
  elif ma == 3: pos.append(ca)
  elif ma == 2: kw['a'] = R
  elif ma == 4: kw['a'] = ca
  if mb == 1: pos.append(R)
  elif mb == 3: pos.append(cb)
  elif mb == 2: kw['b'] = R
  elif mb == 4: kw['b'] = cb
  if mc == 2: kw['c'] = R
  elif mc == 4: kw['c'] = cc

  # ---- oracle: who supplies each parameter ---------------------------------
  missing = []
  type_error = False
  if ma in (3, 4):
    exp_a = ca
  elif ma in (1, 2):
    if has_a: exp_a = bnd_a
    else: missing.append('a'); exp_a = None
  else:  # omitted, no default, not marked
    if has_a: exp_a = bnd_a
    else: type_error = True; exp_a = None
  if mb in (3, 4):
    exp_b = cb
  else:  # caller REQUIRED or the signature default REQUIRED
    if has_b: exp_b = bnd_b
    else: missing.append('b'); exp_b = None
  if mc == 4:
    exp_c = cc
  else:
    if has_c: exp_c = bnd_c
    else: missing.append('c'); exp_c = None
  rt.sig(('req', nonev, ins, ma, mb, mc, tuple(sorted(k for k in pres if pres[k]))),
         nontrivial=bool(missing) or (ma in (1, 2) or mb != 3))

  exc = None
  try:
    if ins:
      with gin.config_scope('s'):
        world.req(*pos, **kw)
    else:
      world.req(*pos, **kw)
  except Exception as e:
    exc = e
  if missing:
    if not isinstance(exc, RuntimeError) or world.LOG:
      return False
    head, names = _parse_missing(str(exc))
    with rt.native():
      return _listed(names) == list(missing) and _names_cfg(head, 'vw.req')
  if type_error:
    return isinstance(exc, TypeError) and not world.LOG
  if exc is not None or len(world.LOG) != 1:
    return False
  _, args, kwargs, _ = world.LOG[0]
  for got in (args[0], args[1], kwargs['c'], kwargs['d']):
    if got is R:
      return False
  return (rt.same('a', args[0], exp_a) and rt.same('b', args[1], exp_b) and
          rt.same('c', kwargs['c'], exp_c) and kwargs['d'] == world.DD)


def _shape_vartail(mx, my, m2, b2, v2, ca, cx, cy):
  """reqvar(a, *rest): the marker in the named slot with a *args tail present, and / or in the tail.
  mx: a is a value / positional REQUIRED; my: tail of length 2 / 1 / 0;
  m2: marker nowhere in the tail / at tail[0] / at tail[1] / at both."""
  if mx == 2:
    rt.discard()
  tail = [[cx, cy], [cx], []][my]
  marked = {0: [], 1: [0], 2: [1], 3: [0, 1]}[m2]
  for i in marked:
    if i >= len(tail):
      rt.discard()
    tail[i] = R
  if b2: gin.bind_parameter('vw.reqvar.a', v2)
  first = R if mx == 1 else ca
  exc = None
  try:
    world.reqvar(first, *tail)
  except Exception as e:
    exc = e
  if marked:
    # "passing it for an unnamed variadic positional argument is rejected"
    if world.LOG or exc is None:
      return rt.no('marker in the *args tail was not rejected')
    if isinstance(exc, ValueError):
      return True
    if mx == 1 and not b2:
      # both clauses apply (named slot unfilled AND marker in the tail): either error is a clean failure
      return _is_missing_error(exc, ['a'], 'reqvar', 'vw.reqvar')
    with rt.native():
      return rt.no('expected ValueError, got %r' % (exc,))
  if mx == 1 and not b2:
    if world.LOG:
      return rt.no('body ran')
    return _is_missing_error(exc, ['a'], 'reqvar', 'vw.reqvar')
  if exc is not None or len(world.LOG) != 1:
    return False
  _, args, _, _ = world.LOG[0]
  if len(args) != 1 + len(tail):
    return rt.no('tail lost or grown')
  for got in args:
    if got is R:
      return rt.no('marker reached the body')
  if not rt.same('a', args[0], v2 if mx == 1 else ca):
    return False
  for i in range(len(tail)):      # the tail keeps its length, order and values
    if not rt.same('tail', args[1 + i], tail[i]):
      return False
  return True


def _shape_ntr(mx, m2, bx, b2, vx, v2, ca, c2):
  """NTR(a, b=REQUIRED), a typing.NamedTuple: constructed through __new__(cls, a, b)."""
  if m2 == 1 and mx == 2:
    rt.discard()              # a positional b needs a positional a
  if bx: gin.bind_parameter('vw10.NTR.a', vx)
  if b2: gin.bind_parameter('vw10.NTR.b', v2)
  pos, kw, missing = [], {}, []
  if mx == 0: pos.append(ca); exp_a = ca
  else:
    if mx == 1: pos.append(R)
    else: kw['a'] = R
    if bx: exp_a = vx
    else: missing.append('a'); exp_a = None
  if m2 == 3: kw['b'] = c2; exp_b = c2
  else:
    if m2 == 1: pos.append(R)
    elif m2 == 2: kw['b'] = R
    if b2: exp_b = v2
    else: missing.append('b'); exp_b = None
  exc = out = None
  try:
    out = NTR(*pos, **kw)
  except Exception as e:
    exc = e
  if missing:
    if out is not None:
      return rt.no('instance built')
    return _is_missing_error(exc, missing, 'NTR', 'vw10.NTR')
  if exc is not None or out is None:
    return False
  if out.a is R or out.b is R:
    return rt.no('marker reached __new__')
  return rt.same('a', out.a, exp_a) and rt.same('b', out.b, exp_b)


def _shape_partial(mx, my, m2, bx, by, b2, vx, vy, v2, ca, cy, c2):
  """preq = external_configurable(functools.partial(_pf, b=REQUIRED)): signature (a, *, b=REQUIRED, c=3)."""
  if m2 == 1:
    rt.discard()              # b is keyword-only in the partial's signature
  if bx: gin.bind_parameter('vw10.preq.a', vx)
  if by: gin.bind_parameter('vw10.preq.c', vy)
  if b2: gin.bind_parameter('vw10.preq.b', v2)
  pos, kw, missing = [], {}, []
  if mx == 0: pos.append(ca); exp_a = ca
  else:
    if mx == 1: pos.append(R)
    else: kw['a'] = R
    if bx: exp_a = vx
    else: missing.append('a'); exp_a = None
  if m2 == 3: kw['b'] = c2; exp_b = c2
  else:
    if m2 == 2: kw['b'] = R
    if b2: exp_b = v2
    else: missing.append('b'); exp_b = None
  if my == 2: kw['c'] = cy; exp_c = cy
  elif my == 1:               # caller marks a parameter that has an ordinary default
    kw['c'] = R
    if by: exp_c = vy
    else: missing.append('c'); exp_c = None
  else:
    exp_c = vy if by else 3
  exc = None
  try:
    preq(*pos, **kw)
  except Exception as e:
    exc = e
  if missing:
    if world.LOG:
      return rt.no('body ran')
    return _is_missing_error(exc, missing, 'preq', 'vw10.preq')
  if exc is not None or len(world.LOG) != 1:
    return False
  _, args, _, _ = world.LOG[0]
  for got in args:
    if got is R:
      return rt.no('marker reached the body')
  return rt.same('a', args[0], exp_a) and rt.same('b', args[1], exp_b) and rt.same('c', args[2], exp_c)


def _shape_family(mx, m2, bx, b2, vx, v2, c2):
  """Two configurables sharing the short name `famr` (vw10.x.m.famr / vw10.y.m.famr), p=REQUIRED:
  the error must name the one that was called."""
  if mx == 2:
    rt.discard()
  mine, other = (('x', 'y'), ('y', 'x'))[mx]
  if b2: gin.bind_parameter('vw10.%s.m.famr.p' % mine, v2)
  if bx: gin.bind_parameter('vw10.%s.m.famr.p' % other, vx)   # must never be used
  fn = (famr_x, famr_y)[mx]
  pos, kw = [], {}
  if m2 == 1: pos.append(R)
  elif m2 == 2: kw['p'] = R
  elif m2 == 3: kw['p'] = c2
  exc = None
  try:
    fn(*pos, **kw)
  except Exception as e:
    exc = e
  if m2 != 3 and not b2:
    if world.LOG:
      return rt.no('body ran')
    return _is_missing_error(exc, ['p'], None, 'vw10.%s.m.famr' % mine)
  if exc is not None or len(world.LOG) != 1:
    return False
  name, args, _, _ = world.LOG[0]
  if args[0] is R or name != 'famr_' + mine:
    return False
  return rt.same('p', args[0], c2 if m2 == 3 else v2)


def c10_shapes(shape: int, mx: int, my: int, m2: int, bx: bool, by: bool, b2: bool,
               vx: int, vy: int, v2: int, cx: int, cy: int, c2: int, ca: int) -> bool:
  """
  pre: 0 <= shape < 9 and 0 <= mx < 3 and 0 <= my < 3 and 0 <= m2 < 4
  """
  world.fresh()
  shape = rt.pick(shape, 9)
  mx = rt.pick(mx, 3)   # **kwargs name x: absent / REQUIRED / value
  my = rt.pick(my, 3)
  m2 = rt.pick(m2, 4)
  bx, by, b2 = rt.flag(bx), rt.flag(by), rt.flag(b2)
  rt.sig(('shapes', shape, mx, my, m2, bx, by, b2), nontrivial=True)
  exc = None
  if shape == 2:
    return _shape_vartail(mx, my, m2, b2, v2, ca, cx, cy)
  if shape == 6:
    return _shape_ntr(mx, m2, bx, b2, vx, v2, ca, c2)
  if shape == 7:
    return _shape_partial(mx, my, m2, bx, by, b2, vx, vy, v2, ca, cy, c2)
  if shape == 8:
    return _shape_family(mx, m2, bx, b2, vx, v2, c2)
  if shape == 0:
    # reqkw(a, **kw): REQUIRED passed for names that only **kwargs can take;
    # keyword order y-then-x when m2 is odd (leftover order = caller's order)
    # m2 >= 2 (round f): the binding for x is the %gin.REQUIRED marker (config text), so x can be collected both by
    # the scan for bindings still equal to the marker and by the caller's own marker - it is still ONE name
    req_bind_x = bx and m2 >= 2
    if req_bind_x:
      with rt.native():
        gin.parse_config('vw.reqkw.x = %gin.REQUIRED')
    elif bx: gin.bind_parameter('vw.reqkw.x', vx)
    if by: gin.bind_parameter('vw.reqkw.y', vy)
    items = []
    if mx == 1: items.append(('x', R))
    elif mx == 2: items.append(('x', cx))
    if my == 1: items.append(('y', R))
    elif my == 2: items.append(('y', cy))
    if m2 % 2:
      items.reverse()
    kw = dict(items)
    missing = [k for k, v in items if v is R and not {'x': bx and not req_bind_x, 'y': by}[k]]
    if req_bind_x and mx == 0:
      missing.append('x')     # nobody fills the marker binding
    try:
      world.reqkw(ca, **kw)
    except Exception as e:
      exc = e
    if missing:
      if not isinstance(exc, RuntimeError) or world.LOG:
        return False
      head, names = _parse_missing(str(exc))
      with rt.native():
        if req_bind_x:
          # the position of a name that only a marker BINDING contributes is not fixed by the statement
          # (it is no parameter of the signature): each unfilled name exactly once, in any order
          return sorted(_listed(names)) == sorted(missing) and _names_cfg(head, 'vw.reqkw')
        return _listed(names) == list(missing) and _names_cfg(head, 'vw.reqkw')
    if exc is not None or len(world.LOG) != 1:
      return False
    _, args, kwargs, _ = world.LOG[0]
    want = {}
    if mx == 2: want['x'] = cx
    elif mx == 1 or bx: want['x'] = vx
    if my == 2: want['y'] = cy
    elif my == 1 or by: want['y'] = vy
    for v in kwargs.values():
      if v is R:
        return False
    return rt.same('a', args[0], ca) and kwargs == want
  if shape == 5:
    # a registered method of a registered class (its selector was re-keyed under the class)
    if bx: gin.bind_parameter('vw.ReqM.run.steps', vx)
    if by: gin.bind_parameter('vw.ReqM.run.seed', vy)
    obj = gin.get_configurable(world.ReqM)()
    try:
      obj.run()
    except Exception as e:
      exc = e
    missing = [n_ for n_, b_ in (('steps', bx), ('seed', by)) if not b_]
    if missing:
      if not isinstance(exc, RuntimeError) or world.LOG:
        with rt.native():
          return rt.no('expected RuntimeError, got %r' % (exc,))
      head, names = _parse_missing(str(exc))
      with rt.native():
        return ((_listed(names) == list(missing) and _names_cfg(head, 'vw.ReqM.run'))
                or rt.no('message %r' % str(exc)))
    if exc is not None or len(world.LOG) != 1:
      return False
    return rt.same('steps', world.LOG[0][1][0], vx) and rt.same('seed', world.LOG[0][1][1], vy)
  # shapes 1, 3, 4
  # class: b has signature REQUIRED; m2: omitted / pos REQUIRED / kw REQUIRED / value
  # (shape 1: @gin.configurable class; 3: @gin.register class reached through get_configurable;
  #  4: external_configurable wrapper)
  cname = {1: 'ReqK', 3: 'ReqReg', 4: 'ReqExt'}[shape]
  target = {1: world.ReqK, 3: gin.get_configurable(world.ReqReg), 4: world.ReqExt}[shape]
  if b2: gin.bind_parameter('vw.%s.b' % cname, v2)
  pos, kw = [ca], {}
  if m2 == 1: pos.append(R)
  elif m2 == 2: kw['b'] = R
  elif m2 == 3: kw['b'] = c2
  try:
    target(*pos, **kw)
  except Exception as e:
    exc = e
  if m2 != 3 and not b2:
    if not isinstance(exc, RuntimeError) or world.LOG:
      return False
    head, names = _parse_missing(str(exc))
    with rt.native():
      return _listed(names) == ['b'] and _names_cfg(head, 'vw.' + cname)
  if exc is not None or len(world.LOG) != 1:
    return False
  _, args, kwargs, _ = world.LOG[0]
  if args[1] is R:
    return False
  return rt.same('a', args[0], ca) and rt.same('b', args[1], c2 if m2 == 3 else v2)


def c10_callmarks(ma: int, mb: int, md: int, mz: bool, ba: int, bb: bool, bc: bool, bd: bool,
                  va: int, vb: int, vc: int, vd: int, ca: int, cb: int, cd: int) -> bool:
  """
  pre: 0 <= ma < 5 and 0 <= mb < 3 and 0 <= md < 3 and 0 <= ba < 3
  """
  # req(a, b=REQUIRED, *, c=REQUIRED, d=DD): the caller marks a parameter that has an ORDINARY
  # default (d), marks a name that is no parameter at all (zzz, and req has no **kwargs), or passes
  # the marker buried inside a container; a bound LIST for the marked positional slot.
  world.fresh()
  ma = rt.pick(ma, 5)   # a: pos value / pos REQUIRED / kw REQUIRED / pos list holding the marker / kw dict holding it
  mb = rt.pick(mb, 3)   # b: omitted (signature REQUIRED) / pos REQUIRED / pos value
  md = rt.pick(md, 3)   # d: omitted / kw REQUIRED / kw value
  ba = rt.pick(ba, 3)   # a unbound / bound to an int / bound to a nested list
  mz, bb, bc, bd = rt.flag(mz), rt.flag(bb), rt.flag(bc), rt.flag(bd)
  if mb in (1, 2) and ma in (2, 4):
    rt.discard()        # a positional b needs a positional a
  if ba == 2:
    va = [va, [vb, 7]]
  if ba: gin.bind_parameter('vw.req.a', va)
  if bb: gin.bind_parameter('vw.req.b', vb)
  if bc: gin.bind_parameter('vw.req.c', vc)
  if bd: gin.bind_parameter('vw.req.d', vd)
  rt.sig(('callmarks', ma, mb, md, mz, ba, bb, bc, bd), nontrivial=True)
  pos, kw, missing = [], {}, []
  box = None
  if ma == 0: pos.append(ca); exp_a = ca
  elif ma == 3: box = [R, ca]; pos.append(box); exp_a = None
  elif ma == 4: box = {'k': R}; kw['a'] = box; exp_a = None
  else:
    if ma == 1: pos.append(R)
    else: kw['a'] = R
    if ba: exp_a = va
    else: missing.append('a'); exp_a = None
  if mb == 2: pos.append(cb); exp_b = cb
  else:
    if mb == 1: pos.append(R)
    if bb: exp_b = vb
    else: missing.append('b'); exp_b = None
  if bc: exp_c = vc
  else: missing.append('c'); exp_c = None
  if md == 2: kw['d'] = cd; exp_d = cd
  elif md == 1:
    kw['d'] = R
    if bd: exp_d = vd
    else: missing.append('d'); exp_d = None      # must NOT fall back to the default DD
  else:
    exp_d = vd if bd else world.DD
  if mz:
    kw['zzz'] = R
  exc = None
  try:
    world.req(*pos, **kw)
  except Exception as e:
    exc = e
  if mz:
    # a marked name that is not a parameter can never be filled: the call must fail, body not run.
    # The statement does not fix the error for a non-parameter (Python's own TypeError would be as
    # clean); only when gin answers with its "not provided in config" list is that list judged: the
    # real unfilled parameters in signature order, and the marked name listed once.
    if exc is None or world.LOG:
      return rt.no('marked non-parameter: body ran')
    if not isinstance(exc, RuntimeError):
      return True
    if 'not provided in config' not in str(exc):
      return True
    head, names = _parse_missing(str(exc))
    names = _listed(names)
    with rt.native():
      if names.count('zzz') != 1:
        return rt.no('zzz not named exactly once: %r' % (names,))
      if [n for n in names if n != 'zzz'] != missing:
        return rt.no('names %r, expected %r (+zzz)' % (names, missing))
    return _names_cfg(head, 'vw.req')
  if missing:
    if world.LOG:
      return rt.no('body ran')
    return _is_missing_error(exc, missing, 'req', 'vw.req')
  if exc is not None or len(world.LOG) != 1:
    return False
  _, args, kwargs, _ = world.LOG[0]
  for got in (args[0], args[1], kwargs['c'], kwargs['d']):
    if got is R:
      return rt.no('marker reached the body')
  if box is not None:
    # a container that merely holds the marker is an ordinary caller value: passed through untouched
    got = args[0]
    if ma == 3:
      if not (type(got) is list and len(got) == 2 and got[0] is R and rt.same('box', got[1], ca)):
        return rt.no('list holding the marker was altered')
    else:
      if not (type(got) is dict and len(got) == 1 and got.get('k') is R):
        return rt.no('dict holding the marker was altered')
  elif not rt.same('a', args[0], exp_a):
    return False
  return (rt.same('b', args[1], exp_b) and rt.same('c', kwargs['c'], exp_c) and
          rt.same('d', kwargs['d'], exp_d))


LOCS = ['', 's', 's/t', 't']
STACKS = [[], ['s'], ['s', 't'], ['s', 't'], ['s', 't'], ['t']]


def c10_deep(stk: int, who: int, oth: bool, p0: bool, p1: bool, p2: bool, p3: bool,
             v0: int, v1: int, v2: int, v3: int, w: int, ca: int) -> bool:
  """
  pre: 0 <= stk < 6 and 0 <= who < 6
  """
  # ONE marked parameter of req with bindings at any subset of the scopes '', 's', 's/t', 't';
  # the call is made under the stacks [], [s], [s,t] (nested / as one 's/t' scope / through
  # gin.get_configurable('s/t/vw.req')) and [t].  Applicable = the scope is a prefix of the stack;
  # the deepest applicable one supplies the value (C09 decides that rule; here: the value lands in the
  # right slot, and "no binding applies" means exactly "no prefix scope has one").
  world.fresh()
  stk = rt.pick(stk, 6)
  who = rt.pick(who, 6)   # a pos REQUIRED / a kw REQUIRED / b signature / b pos REQUIRED / c signature / c kw REQUIRED
  oth = rt.flag(oth)      # the other two REQUIRED parameters are bound at the root (else they are missing too)
  focus = 'aabbcc'[who]
  pres = [rt.flag(p0), rt.flag(p1), rt.flag(p2), rt.flag(p3)]
  vals = [v0, v1, v2, v3]
  for i in range(4):
    if pres[i]:
      gin.bind_parameter((LOCS[i], 'vw.req', focus), vals[i])
  if oth:
    for name in 'abc':
      if name != focus:
        gin.bind_parameter(('', 'vw.req', name), w)
  stack = STACKS[stk]
  rt.sig(('deep', stk, who, oth, tuple(pres)), nontrivial=True)
  has, val = False, None
  for i in range(4):      # LOCS is ordered so that a deeper prefix comes later
    comps = LOCS[i].split('/') if LOCS[i] else []
    if pres[i] and comps == stack[:len(comps)]:
      has, val = True, vals[i]
  pos, kw = [], {}
  if who == 0: pos.append(R)
  elif who == 1: kw['a'] = R
  else: pos.append(ca)
  if who == 3: pos.append(R)
  if who == 5: kw['c'] = R
  exp, missing = {}, []
  for name in 'abc':
    if name == focus:
      if has: exp[name] = val
      else: missing.append(name)
    elif name == 'a':
      exp[name] = ca      # the caller's own value
    elif oth:
      exp[name] = w
    else:
      missing.append(name)
  exc = None
  try:
    if stk == 0 or stk == 4:
      (gin.get_configurable('s/t/vw.req') if stk == 4 else world.req)(*pos, **kw)
    elif stk == 2:
      with gin.config_scope('s'):
        with gin.config_scope('t'):
          world.req(*pos, **kw)
    else:
      with gin.config_scope({1: 's', 3: 's/t', 5: 't'}[stk]):
        world.req(*pos, **kw)
  except Exception as e:
    exc = e
  if missing:
    if world.LOG:
      return rt.no('body ran')
    return _is_missing_error(exc, missing, 'req', 'vw.req')
  if exc is not None or len(world.LOG) != 1:
    return False
  _, args, kwargs, _ = world.LOG[0]
  for got in (args[0], args[1], kwargs['c']):
    if got is R:
      return rt.no('marker reached the body')
  return (rt.same('a', args[0], exp['a']) and rt.same('b', args[1], exp['b']) and
          rt.same('c', kwargs['c'], exp['c']) and kwargs['d'] == world.DD)


def c10_marker(kind: int) -> bool:
  """
  pre: 0 <= kind < 11
  """
  # The marker arriving by unusual routes.  "The REQUIRED marker itself is never passed to the
  # wrapped function in place of such a parameter": on every path the only thing that is a violation
  # is a body that RAN and received gin.REQUIRED (identity) for a parameter marked REQUIRED, or a
  # wrong value where an ordinary binding applies.
  world.fresh()
  kind = rt.pick(kind, 11)
  rt.sig(('marker', kind), nontrivial=True)
  exc = None
  fn, pos, kw = world.req, [1], {}
  want = None               # (index or key, value) expected when an ordinary binding applies
  must_fail = None          # expected missing list when the statement fixes a failure
  with rt.native():
    if kind == 0:           # control: an ordinary parsed binding fills the signature-REQUIRED b
      gin.parse_config('vw.req.b = 5\nvw.req.c = 6')
      want = (1, 5)
    elif kind == 1:         # the bound value is the marker itself (the "must be overridden" idiom)
      gin.parse_config('vw.req.b = %gin.REQUIRED\nvw.req.c = 6')
    elif kind == 2:         # ... and the caller marks the slot positionally as well
      gin.parse_config('vw.req.b = %gin.REQUIRED\nvw.req.c = 6')
      pos = [1, R]
    elif kind == 3:         # ... for the keyword-only c, marked by the caller by keyword
      gin.parse_config('vw.req.b = 5\nvw.req.c = %gin.REQUIRED')
      kw = {'c': R}
    elif kind == 4:         # the marker bound through the API
      gin.bind_parameter('vw.req.b', R)
      gin.bind_parameter('vw.req.c', 6)
    elif kind == 5:         # signature REQUIRED behind a signature-agnostic decorator, unbound
      fn, pos = wreq, []
    elif kind == 6:         # ... bound: filled
      gin.parse_config('vw10.wreq.a = 8')
      fn, pos, want = wreq, [], (0, 8)
    elif kind == 7:         # ... marked positionally by the caller (gin cannot name the slot)
      fn, pos = wreq, [R]
    elif kind == 8:         # ... marked by keyword by the caller, unbound: a clean failure naming a
      fn, pos, kw, must_fail = wreq, [], {'a': R}, ['a']
    elif kind == 9:         # b bound to an evaluated reference while c is unfilled
      gin.parse_config('vw.req.b = @vw.src()')
      must_fail = ['c']
    else:                   # kind 10: ... and with c filled the reference's result lands in slot b
      gin.parse_config('vw.req.b = @vw.src()\nvw.req.c = 6\nvw.src.v = 4')
      want = (1, [4])
    try:
      fn(*pos, **kw)
    except Exception as e:
      exc = e
    ran = [l for l in world.LOG if l[0] in ('req', 'wreq')]
    if must_fail is not None:
      if ran:
        return rt.no('body ran')
      return _is_missing_error(exc, must_fail, None, 'vw.req' if fn is world.req else 'vw10.wreq')
    if want is not None:
      if exc is not None or len(ran) != 1:
        return rt.no('expected a filled call, got %r' % (exc,))
      return rt.same('filled', ran[0][1][want[0]], want[1])
    # kinds 1-5, 7: a failure before the body is fine; a body that received the marker is not
    if exc is not None:
      return (not ran) or rt.no('failed after the body ran')
    for _, args, kwargs, _ in ran:
      for got in list(args) + list(kwargs.values()):
        if got is R:
          return rt.no('the body ran and received gin.REQUIRED')
    return True


def _reg_snapshot():
  return (copy.deepcopy(gc._REGISTRY._selector_tree), dict(gc._REGISTRY._selector_map),
          dict(gc._INVERSE_REGISTRY), dict(gc._RENAMED_SELECTORS))


def _reg_restore(snap):
  for store, saved in ((gc._REGISTRY._selector_tree, snap[0]), (gc._REGISTRY._selector_map, snap[1]),
                       (gc._INVERSE_REGISTRY, snap[2]), (gc._RENAMED_SELECTORS, snap[3])):
    store.clear()
    store.update(saved)


def c10_register(kind: int, sig_a: bool, sig_b: bool, allow: int, deny: int, api: int, tup: bool,
                 v: int) -> bool:
  """
  pre: 0 <= allow < 4 and 0 <= deny < 4 and 0 <= api < 3 and 0 <= kind < 6
  """
  world.fresh()
  sig_a, sig_b = rt.flag(sig_a), rt.flag(sig_b)
  allow = [None, ['a'], ['b'], ['a', 'b']][rt.pick(allow, 4)]
  deny = [None, ['a'], ['b'], ['a', 'b']][rt.pick(deny, 4)]
  api = rt.pick(api, 3)
  # 0: a function f(a=, b=); 1: a class (its __init__ carries the markers); 2: a function whose b is
  # keyword-only, f(a=, *, b=) (the kwonlydefaults branch); 3: a METHOD registered with the lists (its
  # class is registered afterwards); 4: a class that has a registered method, registered with the lists;
  # 5: a typing.NamedTuple (the markers are defaults of the generated __new__)
  kind = rt.pick(kind, 6)
  tup = rt.flag(tup)                 # the lists are given as tuples
  if kind == 3 and api != 1:
    rt.discard()                     # methods are registered with @gin.register
  rt.sig(('register', kind, sig_a, sig_b, allow, deny, api, tup), nontrivial=sig_a or sig_b)
  with rt.native():
    if tup:
      allow = tuple(allow) if allow is not None else None
      deny = tuple(deny) if deny is not None else None
    da = R if sig_a else 1
    db = R if sig_b else 2
    snap = _reg_snapshot()
    before = set(gc._REGISTRY._selector_map)
    mod = __name__                   # default module of a method registered without one

    def c10tmp(a=da, b=db):
      world.rec('c10tmp', a, b)

    if kind == 1:
      class c10tmp:   # noqa: F811
        def __init__(self, a=da, b=db):
          world.rec('c10tmp', a, b)
    elif kind == 2:
      def c10tmp(a=da, *, b=db):   # noqa: F811
        world.rec('c10tmp', a, b)
    elif kind == 4:
      class c10tmp:   # noqa: F811
        def __init__(self, a=da, b=db):
          world.rec('c10tmp', a, b)

        @gin.register
        def run(self, x=1):
          return x
    elif kind == 5:
      class c10tmp(typing.NamedTuple):   # noqa: F811
        a: int = da
        b: int = db
  exc = None
  try:
    bad = False
    if allow and deny:
      bad = True
    for name, marked in (('a', sig_a), ('b', sig_b)):
      if marked and ((deny and name in deny) or (allow and name not in allow)):
        bad = True
    if kind == 3:
      with rt.native():
        c10K = None
        try:
          class c10K:   # noqa: F811
            def __init__(self):
              pass

            @gin.register(allowlist=allow, denylist=deny)
            def c10tmp(self, a=da, b=db):
              world.rec('c10tmp', a, b)
        except Exception as e:
          exc = e
        after = set(gc._REGISTRY._selector_map)
      if bad:
        return isinstance(exc, ValueError) and after == before
      if exc is not None or after != before | {mod + '.c10tmp'}:
        return False
      gin.register('c10K', module='vw10')(c10K)
      if set(gc._REGISTRY._selector_map) != before | {'vw10.c10K', 'vw10.c10K.c10tmp'}:
        return rt.no('method not re-keyed under its class')
      if sig_a:
        gin.bind_parameter('vw10.c10K.c10tmp.a', v)
        if sig_b:
          gin.bind_parameter('vw10.c10K.c10tmp.b', v)
        gin.get_configurable(c10K)().c10tmp()
        return len(world.LOG) == 1 and rt.same('v', world.LOG[0][1][0], v)
      return True
    try:
      if api == 0:
        gin.configurable(c10tmp.__name__, module='vw', allowlist=allow, denylist=deny)(c10tmp)
      elif api == 1:
        gin.register(c10tmp.__name__, module='vw', allowlist=allow, denylist=deny)(c10tmp)
      else:
        gin.external_configurable(c10tmp, module='vw', allowlist=allow, denylist=deny)
    except Exception as e:
      exc = e
    after = set(gc._REGISTRY._selector_map)
    if kind == 4:
      # "is rejected at registration": the rejection, and the name being registered is not added.
      # (gin re-keys the class's registered method before it validates, so after != before here;
      #  the statement does not speak about that.)
      if bad:
        return isinstance(exc, ValueError) and 'vw.c10tmp' not in after
      if exc is not None or 'vw.c10tmp' not in after:
        return False
    else:
      if bad:
        return isinstance(exc, ValueError) and after == before
      if exc is not None or after != before | {'vw.c10tmp'}:
        return False
    # a correctly registered REQUIRED parameter is filled from a binding
    if sig_a:
      gin.bind_parameter('vw.c10tmp.a', v)
      if sig_b:
        gin.bind_parameter('vw.c10tmp.b', v)
      out = gin.get_configurable('vw.c10tmp')()
      if kind == 5:
        return isinstance(out, tuple) and out.a is not R and rt.same('v', out.a, v)
      return len(world.LOG) == 1 and rt.same('v', world.LOG[0][1][0], v)
    return True
  finally:
    with rt.native():
      _reg_restore(snap)


# ---- histories: what an earlier (failed) call leaves behind must not change a later call ---------------------
# (round d seed C10-d: the helper that orders the missing names extended the CACHED argument list in place)
HLOG = []


def _hvk(a, *rest, k=gin.REQUIRED):
  HLOG.append((a, rest, k))
  return (a, rest, k)


def _hvd(a, b=gin.REQUIRED, *rest, k=gin.REQUIRED, **kw):
  HLOG.append((a, b, rest, k, kw))
  return (a, b, rest, k, kw)


if 'vw10.hvk' not in gc._REGISTRY:
  gin.external_configurable(_hvk, 'hvk', module='vw10')
  gin.external_configurable(_hvd, 'hvd', module='vw10')


def c10_history(fn: int, prior: int, nrest: int, mark: int, bound: bool, vk: int) -> bool:
  """
  pre: 0 <= fn < 2 and 0 <= prior < 4 and 0 <= nrest < 3 and 0 <= mark < 3
  """
  fn, prior, nrest, mark = rt.pick(fn, 2), rt.pick(prior, 4), rt.pick(nrest, 3), rt.pick(mark, 3)
  bound = rt.flag(bound)
  rt.sig(('history', fn, prior, nrest, mark, bound), nontrivial=True)
  R = gin.REQUIRED
  with rt.native():
    world.fresh()
    getattr(gc, '_ARG_SPEC_CACHE', {}).clear()       # every path starts like a fresh process
    del HLOG[:]
    sel, f = [('vw10.hvk', gin.get_configurable(_hvk)), ('vw10.hvd', gin.get_configurable(_hvd))][fn]
    head = (1,) if fn == 0 else (1, 2)
    # 1. earlier calls of the same configurable
    for _ in range([0, 1, 2, 1][prior]):
      if prior == 3:                                  # a successful one
        f(*head, k=7)
      else:                                           # k is not bound: fails before the body, naming ['k']
        try:
          f(*head)
          return rt.no('the call with k unfilled did not fail')
        except RuntimeError as e:
          if _listed(_parse_missing(str(e))[1]) != ['k']:
            return rt.no('the failed call named %s' % e)
    del HLOG[:]
  if bound:
    gin.bind_parameter(sel + '.k', vk)
  with rt.native():
    # 2. the call under test: nrest surplus positionals, the marker at none / the first / the last of them
    rest = [10 + i for i in range(nrest)]
    if mark and not nrest:
      rt.discard()
    if mark == 1:
      rest[0] = R
    elif mark == 2:
      rest[-1] = R
    try:
      got = f(*(head + tuple(rest)))
      raised = None
    except Exception as e:                            # noqa
      got, raised = None, e
    if mark:                                          # the marker for an unnamed variadic positional is rejected
      if not isinstance(raised, ValueError) or HLOG:
        return rt.no('REQUIRED passed for *rest was not rejected: %r %r' % (got, raised))
      return True
    if not bound:
      if not isinstance(raised, RuntimeError) or _listed(_parse_missing(str(raised))[1]) != ['k'] or HLOG:
        return rt.no('k unfilled, but the call gave %r %r' % (got, raised))
      return True
    if raised is not None:
      return rt.no('k is bound, but the call raised %r' % (raised,))
  want = (1, tuple(rest), vk) if fn == 0 else (1, 2, tuple(rest), vk, {})
  with rt.native():
    got = rt.realize(got)
  if got[:-1 if fn else 2] != want[:-1 if fn else 2]:
    return rt.no('received %r, expected %r' % (got, want))
  k_got = got[2] if fn == 0 else got[3]
  if k_got is R:
    return rt.no('the marker reached the body')
  return k_got == vk


HARNESSES = {
    'c10_req': dict(
        fn='c10_req',
        anchors=['gin.config:gin_wrapper', 'gin.config:_order_by_signature'],
        smoke=[dict(nonev=1, ins=True, ma=1, mb=0, mc=1, ba0=True, ba1=False, bb0=False, bb1=False,
                    bc0=False, bc1=False, va0=1, va1=2, vb0=3, vb1=4, vc0=5, vc1=6,
                    ca=7, cb=8, cc=9)],
        tiers={
            'quick': dict(split=dict(ma=list(range(5)), mb=list(range(5)), nonev=[0, 3]),
                          fixed=dict(bc1=False, ba1=False), budget_s=100),
            'thorough': dict(split=dict(ma=list(range(5)), mb=list(range(5)),
                                        mc=list(range(3)), nonev=[0, 1, 2, 3]), budget_s=600),
        },
        bounds='req(a, b=REQUIRED, *, c=REQUIRED, d=default): 5 caller modes for a and b, 3 for c; '
               'bindings at root and in scope s; active scope [] or [s]; values: all ints, and None for the root bindings; '
               'the selector quoted in the error resolves to the called configurable'),
    'c10_callmarks': dict(
        fn='c10_callmarks',
        anchors=['gin.config:gin_wrapper', 'gin.config:_order_by_signature'],
        smoke=[dict(ma=0, mb=0, md=1, mz=False, ba=0, bb=True, bc=True, bd=False,
                    va=1, vb=2, vc=3, vd=4, ca=5, cb=6, cd=7),
               dict(ma=0, mb=0, md=1, mz=False, ba=0, bb=True, bc=True, bd=True,
                    va=1, vb=2, vc=3, vd=4, ca=5, cb=6, cd=7),
               dict(ma=0, mb=0, md=0, mz=True, ba=0, bb=True, bc=True, bd=False,
                    va=1, vb=2, vc=3, vd=4, ca=5, cb=6, cd=7),
               dict(ma=1, mb=1, md=0, mz=True, ba=0, bb=False, bc=False, bd=False,
                    va=1, vb=2, vc=3, vd=4, ca=5, cb=6, cd=7),
               dict(ma=3, mb=2, md=2, mz=False, ba=1, bb=True, bc=True, bd=True,
                    va=1, vb=2, vc=3, vd=4, ca=5, cb=6, cd=7),
               dict(ma=4, mb=0, md=0, mz=False, ba=0, bb=True, bc=True, bd=False,
                    va=1, vb=2, vc=3, vd=4, ca=5, cb=6, cd=7),
               dict(ma=1, mb=1, md=1, mz=False, ba=2, bb=True, bc=True, bd=True,
                    va=1, vb=2, vc=3, vd=4, ca=5, cb=6, cd=7)],
        tiers={'quick': dict(split=dict(ma=list(range(5)), md=[0, 1, 2]), budget_s=100),
               'thorough': dict(split=dict(ma=list(range(5)), md=[0, 1, 2], mb=[0, 1, 2]), budget_s=300)},
        bounds='req(a, b=REQUIRED, *, c=REQUIRED, d=default): the caller marks d (a parameter with an ordinary '
               'default) / marks zzz (no parameter, no **kwargs) / passes a list or dict that merely holds the '
               'marker for a; a: 5 modes, b: 3, d: 3; root bindings of a (none / int / nested list), b, c, d: '
               'every subset; all int values'),
    'c10_deep': dict(
        fn='c10_deep',
        anchors=['gin.config:gin_wrapper', 'gin.config:_order_by_signature', 'gin.config:get_configurable'],
        smoke=[dict(stk=4, who=0, oth=True, p0=False, p1=False, p2=True, p3=True,
                    v0=1, v1=2, v2=3, v3=4, w=5, ca=6),
               dict(stk=2, who=3, oth=False, p0=True, p1=True, p2=False, p3=True,
                    v0=1, v1=2, v2=3, v3=4, w=5, ca=6),
               dict(stk=3, who=5, oth=True, p0=False, p1=False, p2=False, p3=True,
                    v0=1, v1=2, v2=3, v3=4, w=5, ca=6),
               dict(stk=5, who=2, oth=True, p0=False, p1=True, p2=True, p3=True,
                    v0=1, v1=2, v2=3, v3=4, w=5, ca=6)],
        tiers={'quick': dict(split=dict(stk=list(range(6)), oth=[False, True]), budget_s=100),
               'thorough': dict(split=dict(stk=list(range(6)), who=[0, 1, 2, 3, 4, 5], oth=[False, True]),
                                budget_s=300)},
        bounds='one marked parameter of req (a pos/kw marked, b signature/pos marked, c signature/kw marked) bound at '
               'every subset of the scopes {root, s, s/t, t}; call stacks [], [s], [s,t] nested, [s,t] as one '
               "scope string, [s,t] through gin.get_configurable('s/t/vw.req'), [t]; the other two REQUIRED "
               'parameters bound at the root or not; all int values'),
    'c10_history': dict(
        fn='c10_history',
        anchors=['gin.config:gin_wrapper', 'gin.config:_order_by_signature'],
        smoke=[dict(fn=0, prior=1, nrest=1, mark=0, bound=True, vk=5), dict(fn=1, prior=2, nrest=2, mark=2, bound=True, vk=5),
               dict(fn=0, prior=0, nrest=0, mark=0, bound=False, vk=0), dict(fn=1, prior=3, nrest=1, mark=1, bound=False, vk=0)],
        tiers={'quick': dict(split=dict(fn=[0, 1], prior=[0, 1, 2, 3]), budget_s=100),
               'thorough': dict(split=dict(fn=[0, 1], prior=[0, 1, 2, 3]), budget_s=200)},
        bounds='two signatures with *rest and keyword-only REQUIRED (a, *rest, k=REQUIRED) / (a, b=REQUIRED, *rest, '
               'k=REQUIRED, **kw); history before the call under test: none, one or two calls that failed with k unfilled, '
               'or one successful call; then a call with 0-2 surplus positionals, the marker at none / the first / the '
               'last of them, k bound (all ints) or not'),
    'c10_marker': dict(
        fn='c10_marker',
        anchors=['gin.config:gin_wrapper'],
        smoke=[dict(kind=k) for k in range(11)],
        tiers={'quick': dict(split={}, budget_s=100),
               'thorough': dict(split={}, budget_s=100)},
        bounds='11 concrete routes of the marker: bound value %gin.REQUIRED (signature default / caller positional / '
               'caller keyword), bind_parameter(..., gin.REQUIRED), signature REQUIRED behind a signature-agnostic '
               'functools.wraps decorator (unbound, bound, caller-marked positionally and by keyword), a bound '
               'evaluated reference with another REQUIRED unfilled / filled'),
    'c10_shapes': dict(
        fn='c10_shapes',
        anchors=['gin.config:gin_wrapper'],
        smoke=[dict(shape=0, mx=1, my=1, m2=1, bx=False, by=False, b2=False, vx=1, vy=2,
                    v2=3, cx=4, cy=5, c2=6, ca=7),
               dict(shape=2, mx=1, my=0, m2=0, bx=False, by=False, b2=True, vx=1, vy=2,
                    v2=3, cx=4, cy=5, c2=6, ca=7),
               dict(shape=2, mx=1, my=1, m2=1, bx=False, by=False, b2=False, vx=1, vy=2,
                    v2=3, cx=4, cy=5, c2=6, ca=7),
               dict(shape=6, mx=1, my=0, m2=0, bx=False, by=False, b2=True, vx=1, vy=2,
                    v2=3, cx=4, cy=5, c2=6, ca=7),
               dict(shape=6, mx=1, my=0, m2=1, bx=True, by=False, b2=True, vx=1, vy=2,
                    v2=3, cx=4, cy=5, c2=6, ca=7),
               dict(shape=7, mx=1, my=1, m2=0, bx=True, by=False, b2=False, vx=1, vy=2,
                    v2=3, cx=4, cy=5, c2=6, ca=7),
               dict(shape=7, mx=0, my=0, m2=2, bx=True, by=True, b2=True, vx=1, vy=2,
                    v2=3, cx=4, cy=5, c2=6, ca=7),
               dict(shape=8, mx=1, my=0, m2=0, bx=True, by=False, b2=False, vx=1, vy=2,
                    v2=3, cx=4, cy=5, c2=6, ca=7),
               dict(shape=8, mx=0, my=0, m2=1, bx=True, by=False, b2=True, vx=1, vy=2,
                    v2=3, cx=4, cy=5, c2=6, ca=7)],
        tiers={'quick': dict(split=dict(shape=list(range(9))), budget_s=100),
               'thorough': dict(split=dict(shape=list(range(9)), m2=[0, 1, 2, 3]), budget_s=300)},
        bounds='**kwargs names marked REQUIRED in both keyword orders; classes with signature '
               'REQUIRED (@configurable, @register reached through get_configurable, external_configurable); '
               'reqvar(a, *rest): a given or marked x tail of length 0-2 x the marker at each tail position; '
               'a registered method (re-keyed under its registered class) with signature REQUIRED; '
               'a typing.NamedTuple (built through __new__) with a REQUIRED default; '
               'external_configurable(functools.partial(f, b=REQUIRED)) (keyword-only defaults of the partial); '
               'two configurables sharing their short name (the error must name the called one)'),
    'c10_register': dict(
        fn='c10_register',
        anchors=['gin.config:_get_validated_required_kwargs', 'gin.config:_make_configurable'],
        smoke=[dict(kind=0, sig_a=True, sig_b=False, allow=2, deny=0, api=0, tup=False, v=5),
               dict(kind=1, sig_a=True, sig_b=False, allow=1, deny=0, api=1, tup=False, v=5),
               dict(kind=2, sig_a=False, sig_b=True, allow=1, deny=0, api=0, tup=False, v=5),
               dict(kind=2, sig_a=True, sig_b=True, allow=0, deny=0, api=0, tup=True, v=5),
               dict(kind=2, sig_a=False, sig_b=True, allow=0, deny=2, api=2, tup=True, v=5),
               dict(kind=3, sig_a=True, sig_b=False, allow=0, deny=1, api=1, tup=False, v=5),
               dict(kind=3, sig_a=True, sig_b=False, allow=0, deny=2, api=1, tup=False, v=5),
               dict(kind=4, sig_a=True, sig_b=False, allow=0, deny=1, api=1, tup=False, v=5),
               dict(kind=4, sig_a=True, sig_b=False, allow=1, deny=0, api=0, tup=True, v=5),
               dict(kind=5, sig_a=True, sig_b=True, allow=0, deny=2, api=0, tup=False, v=5),
               dict(kind=5, sig_a=True, sig_b=False, allow=1, deny=0, api=2, tup=False, v=5)],
        tiers={'quick': dict(split=dict(api=[0, 1, 2], kind=[0, 1, 2, 3, 4, 5]), budget_s=100),
               'thorough': dict(split=dict(api=[0, 1, 2], kind=[0, 1, 2, 3, 4, 5], allow=[0, 1, 2, 3]),
                                budget_s=300)},
        bounds='a function f(a,b) / a class / a function with keyword-only b / a method registered with the lists '
               '(then its class) / a class owning a registered method / a typing.NamedTuple; signature REQUIRED on a and/or b x 4 '
               'allowlists x 4 denylists (as lists or tuples) x 3 registration APIs'),
}

OUTSIDE = ('caller marks the same parameter twice (req(R, a=R)): the statement does not decide between '
           'TypeError and filling; callable instances / bound methods with a positional marker (C01 argspec '
           'offset); allowlist=[] (treated as no allowlist); bound values other than ints, None and one nested list')
