"""C19 - dynamic registration resolves names through the file's own imports."""
import os
import sys

sys.path.insert(0, os.path.join(os.path.dirname(os.path.dirname(os.path.dirname(
    os.path.abspath(__file__)))), 'fixtures'))

import gin
from gin import config as gc
from vf import rt
from vf import world
import vfx.alpha.mod as A
import vfx.beta.mod as B
import vfw.core as W            # widened kinds: re-export, module-level alias, inherited / static / nested methods
import vfw.sib.one as S1        # sibling modules with same-named members
import vfw.sib.two as S2
import Vfz.mod as Z             # top-level package whose name sorts before `__gin__`

DR = 'from __gin__ import dynamic_registration'
# (import statement, bound name) for vfx.<pkg>.mod
FORMS = [
    lambda pkg: ('import vfx.%s.mod' % pkg, 'vfx.%s.mod' % pkg),
    lambda pkg: ('import vfx.%s.mod as m_%s' % (pkg, pkg), 'm_%s' % pkg),
    lambda pkg: ('from vfx.%s import mod' % pkg, 'mod'),
    lambda pkg: ('from vfx.%s import mod as x_%s' % (pkg, pkg), 'x_%s' % pkg),
    lambda pkg: ('from vfx.%s import mod as shared' % pkg, 'shared'),     # colliding bound name
]
NFORM = len(FORMS)
TARGETS = [('fn', 'x', lambda: A.fn), ('Cls', 'x', lambda: A.Cls),
           ('Outer.Inner', 'y', lambda: A.Outer.Inner), ('Cls.meth', 'm', lambda: A.Cls.meth)]


STATIC = ('vfx.gamma', 'vfx.zeta')    # decorator-registered at import: they stay registered


def cleanup_vfx():
  with rt.native():
    for sel in list(gc._REGISTRY._selector_map):
      c = gc._REGISTRY[sel]
      mod = getattr(c.wrapped, '__module__', '') or ''
      if mod.startswith('vfx') and mod not in STATIC:
        gc._REGISTRY.pop(sel)
    for obj in list(gc._INVERSE_REGISTRY):
      m_ = getattr(obj, '__module__', '') or ''
      if m_.startswith('vfx') and m_ not in STATIC:
        del gc._INVERSE_REGISTRY[obj]
    gc._RENAMED_SELECTORS.clear()
    del A.CALLS[:]
    del B.CALLS[:]


# -- widened harnesses: fixture packages vfw, Vfz (and vfy); vfw.deco registers by decorator at import ----------------
_DECO = {}
OWN = ('vfw', 'Vfz', 'vfy')


def deco():
  """Imports vfw.deco (lazily: c06/c15 import this module too) and remembers what its decorators registered."""
  import vfw.deco as D
  if not _DECO:
    with rt.native():
      _DECO['reg'] = {sel: gc._REGISTRY[sel] for sel in list(gc._REGISTRY._selector_map)
                      if getattr(gc._REGISTRY[sel].wrapped, '__module__', '') == 'vfw.deco'}
      _DECO['inv'] = {obj: c for obj, c in gc._INVERSE_REGISTRY.items()
                      if getattr(obj, '__module__', '') == 'vfw.deco'}
  return D


def cleanup19():
  """cleanup_vfx() plus the fixture packages of the widened harnesses; decorator registrations are restored."""
  cleanup_vfx()
  with rt.native():
    base_reg, base_inv = _DECO.get('reg', {}), _DECO.get('inv', {})
    for sel in list(gc._REGISTRY._selector_map):
      mod = getattr(gc._REGISTRY[sel].wrapped, '__module__', '') or ''
      if mod.split('.')[0] in OWN and sel not in base_reg:
        gc._REGISTRY.pop(sel)
    for sel, c in base_reg.items():
      if sel not in gc._REGISTRY._selector_map or gc._REGISTRY[sel] is not c:
        gc._REGISTRY[sel] = c
    for obj in list(gc._INVERSE_REGISTRY):
      if ((getattr(obj, '__module__', '') or '').split('.')[0] in OWN) and obj not in base_inv:
        del gc._INVERSE_REGISTRY[obj]
    for obj, c in base_inv.items():
      gc._INVERSE_REGISTRY[obj] = c
    gc._RENAMED_SELECTORS.clear()
    for m_ in (W, S1, S2, Z):
      del m_.CALLS[:]
    if 'vfw.deco' in sys.modules:
      del sys.modules['vfw.deco'].CALLS[:]


def received(target):
  """Calls the registry's version of the target object and returns what it received."""
  name = TARGETS[target][0]
  del A.CALLS[:]
  if name == 'Cls.meth':
    obj = gin.get_configurable(A.Cls)()
    obj.meth()
    return A.CALLS[-1][1]
  gin.get_configurable(TARGETS[target][2]())()
  return A.CALLS[-1][1]


def c19_spellings(target: int, f1: int, f2: int, structure: int, ref_first: bool,
                  v1: int, v2: int) -> bool:
  """
  pre: 0 <= target < 4 and 0 <= f1 < 5 and 0 <= f2 < 5 and 0 <= structure < 3
  """
  world.fresh()
  cleanup_vfx()
  target = rt.pick(target, 4)
  f1, f2 = rt.pick(f1, NFORM), rt.pick(f2, NFORM)
  structure = rt.pick(structure, 3)       # 0: two separate parses, 1: file 2 is included by file 1,
  ref_first = rt.flag(ref_first)          # 2: file 1 is included by file 2
  name, param, _ = TARGETS[target]
  rt.sig(('spellings', name, f1, f2, structure, ref_first), nontrivial=f1 != f2)
  gin.constant('vwc.V1', v1)
  gin.constant('vwc.V2', v2)
  try:
    with rt.native():
      imp1, b1 = FORMS[f1]('alpha')
      imp2, b2 = FORMS[f2]('alpha')
      impb, bb = FORMS[f2]('beta')      # beta.mod under the same form: colliding names
      cls1 = b1 + '.' + name.split('.')[0]
      file1 = [DR, imp1, 'import vw_dummy_never' if False else '']
      if ref_first and name != 'fn':
        file1.append('%s.consumer.p = @%s()' % (b1, b1 + '.' + ('Cls' if name == 'Cls.meth' else name)))
      file1.append('%s.%s.%s = %%vwc.V1' % (b1, name, param))
      file2 = [DR, imp2]
      if bb != b2:
        file2 += [impb, '%s.fn.x = 77' % bb]
      file2.append('%s.%s.%s = %%vwc.V2' % (b2, name, param))
      t1, t2 = '\n'.join(file1) + '\n', '\n'.join(file2) + '\n'
      if structure == 0:
        gin.parse_config(t1)
        gin.parse_config(t2)
      elif structure == 1:
        world.use_mem_fs({'two.gin': t2})
        gin.parse_config(t1 + "include 'two.gin'\n")
      else:
        world.use_mem_fs({'one.gin': t1})
        lines = t2.split('\n')
        gin.parse_config('\n'.join(lines[:1]) + "\ninclude 'one.gin'\n" + '\n'.join(lines[1:]))
      # -- different spellings address ONE entry, last writer wins ----------------------------------------
      keys = [k for k in gc._CONFIG if k[1].endswith(name) and 'beta' not in k[1]]
      if len(keys) != 1:
        return rt.no('spellings created %r' % (keys,))
    got = received(target)
    if not rt.same('the very object is configured', got, v2):
      return False
    with rt.native():
      if bb != b2:
        del B.CALLS[:]
        gin.get_configurable(B.fn)()
        if B.CALLS[-1][1] != 77:
          return rt.no('same-named member of the other package confused')
      # -- references made before the (re-)registration keep working -----------------------------------------
      if ref_first and name != 'fn':
        del A.CALLS[:]
        gin.get_configurable(A.consumer)()
        p = A.CALLS[-1][1]
        want_cls = A.Outer.Inner if name == 'Outer.Inner' else A.Cls
        if not isinstance(p, want_cls):
          return rt.no('existing reference broken: %r' % (p,))
      # -- the config string re-parses and its selectors resolve to the same objects -----------------------------
      text = gin.config_str()
      before = {k: dict(d) for k, d in gc._CONFIG.items()}
      gc._CONFIG.clear(); gc._CONFIG_PROVENANCE.clear(); gc._IMPORTS.clear()
      gin.parse_config(text)
      if set(gc._CONFIG) != set(before):
        return rt.no('config string re-parse: %r vs %r\n%s' % (sorted(gc._CONFIG), sorted(before), text))
      if gin.config_str() != text:
        return rt.no('config string not stable')
    got = received(target)
    return rt.same('after re-parse of the config string', got, v2)
  finally:
    cleanup_vfx()


ERRORS = [
    # (text, expected exception)
    (DR + '\nimport vfx.alpha.mod as am\nbm.fn.x = 1\n', NameError),                 # not imported
    (DR + '\nimport vfx.alpha.mod as am\nam.nosuch.x = 1\n', AttributeError),
    (DR + '\nimport vfx.alpha.mod as gin\n', ValueError),                              # reserved name
    ('import vfx.alpha.mod\n' + DR + '\n', SyntaxError),                               # late enabling
    ('from __gin__ import dynamic_registration as dr\n', SyntaxError),                 # aliased enabling
    ('from __gin__ import no_such_feature\n', SyntaxError),
    (DR + "\nimport vfx.alpha.mod as am\ninclude 'child.gin'\n", NameError),          # child uses parent's import
    (DR + "\ninclude 'defs.gin'\nam.fn.x = 1\n", NameError),                            # parent uses child's import
    (DR + '\nimport vfx.alpha.mod as am\nam.consumer.p = @bm.Cls()\n', NameError),          # reference, not imported
    (DR + '\nimport vfx.alpha.mod as am\nam.fn.x = 1\n', None),                         # control: fine
    (DR + "\ninclude 'defs.gin'\nimport vfx.alpha.mod as am\nam.fn.x = 2\n", None),     # own import after include: fine
    # -- widened: the reserved name, bound WITHOUT an alias / through a from-import alias
    (DR + '\nimport gin\n', ValueError),
    (DR + '\nimport gin.config\n', ValueError),
    (DR + '\nfrom vfx.alpha import mod as gin\n', ValueError),
    # -- the enabling statement a second time after an import / late after a from-import / aliased to its own name
    (DR + '\nimport vfx.alpha.mod as am\n' + DR + '\n', SyntaxError),
    ('from vfx.alpha import mod\n' + DR + '\n', SyntaxError),
    ('from __gin__ import dynamic_registration as dynamic_registration\n', SyntaxError),
    # -- unknown feature after a valid enabling statement / aliased
    (DR + '\nfrom __gin__ import no_such_feature\n', SyntaxError),
    ('from __gin__ import no_such_feature as f\n', SyntaxError),
    # -- names of OTHER files: a sibling include, a grandchild, a grandparent
    (DR + "\ninclude 'defs.gin'\ninclude 'child.gin'\n", NameError),
    (DR + "\ninclude 'mid_defs.gin'\nam.fn.x = 1\n", NameError),
    (DR + "\nimport vfx.alpha.mod as am\ninclude 'mid_child.gin'\n", NameError),
    # -- a not imported name in other positions: nested value, scoped binding, block header, scoped reference
    (DR + '\nimport vfx.alpha.mod as am\nam.consumer.p = {"k": [@bm.Cls]}\n', NameError),
    (DR + '\nimport vfx.alpha.mod as am\ns/bm.fn.x = 1\n', NameError),
    (DR + '\nimport vfx.alpha.mod as am\nbm.fn:\n  x = 1\n', NameError),
    (DR + '\nimport vfx.alpha.mod as am\nam.consumer.p = @s/bm.Cls()\n', NameError),
    # -- honouring the from / as forms: each form provides exactly ONE name
    (DR + '\nimport vfx.alpha.mod\nmod.fn.x = 1\n', NameError),                        # plain import binds `vfx`, not `mod`
    (DR + '\nfrom vfx.alpha import mod\nvfx.alpha.mod.fn.x = 1\n', NameError),         # from-import binds `mod`, not `vfx`
    (DR + '\nimport vfx.alpha.mod as am\nvfx.alpha.mod.fn.x = 1\n', NameError),        # alias form binds the alias only
    (DR + '\nimport vfx.alpha.mod as am\nmod.fn.x = 1\n', NameError),
    (DR + '\nfrom vfx.alpha import mod as am\nmod.fn.x = 1\n', NameError),
    (DR + '\nfrom vfx import alpha\nalpha.mod.fn.x = 1\n', None),                       # control: package-level from-import
    (DR + '\nimport vfx.alpha.mod\nvfx.beta.mod.fn.x = 1\n', None),                     # control: sibling through `vfx`
    (DR + '\nimport vfx.alpha.mod as am\nam.Outer.Nope.y = 1\n', AttributeError),      # missing intermediate attribute
]
NE = len(ERRORS)


def c19_errors(case: int) -> bool:
  """
  pre: 0 <= case < 34
  """
  world.fresh()
  cleanup_vfx()
  case = rt.pick(case, NE)
  rt.sig(('errors', case), nontrivial=True)
  try:
    with rt.native():
      text, want = ERRORS[case]
      world.use_mem_fs({'child.gin': DR + '\nam.fn.x = 1\n',
                        'defs.gin': DR + '\nimport vfx.alpha.mod as am\nam.fn.y = 5\n',
                        'mid_defs.gin': DR + "\ninclude 'defs.gin'\n",
                        'mid_child.gin': DR + "\ninclude 'child.gin'\n"})
      exc = None
      try:
        gin.parse_config(text)
      except Exception as e:
        exc = e
      if want is None:
        return exc is None or rt.no('control case raised %r' % (exc,))
      return isinstance(exc, want) or rt.no('case %d: expected %s, got %r' % (case, want.__name__, exc))
  finally:
    cleanup_vfx()


# where the existing references to the class sit: (lines with {b} = bound name, p getter, q-class getter)
REFSHAPES = [
    # 0: evaluated top-level reference, unevaluated reference in a list (the original kind)
    (['{b}.consumer.p = @{b}.Cls()', '{b}.consumer.q = [@{b}.Cls]'], lambda p, q: p, lambda p, q: q[0]),
    # 1: scoped references (ConfigurableReference.initialize re-splits the scopes)
    #    the class binding that applies is the one of the references' scopes
    (['{b}.consumer.p = @s/{b}.Cls()', '{b}.consumer.q = [@t/u/{b}.Cls]'], lambda p, q: p, lambda p, q: q[0],
     ['{b}.Cls.x = 40', 's/{b}.Cls.x = 41', 't/u/{b}.Cls.x = 41']),
    # 2: the evaluated reference is the value of a macro
    (['mac = @{b}.Cls()', '{b}.consumer.p = %mac', '{b}.consumer.q = [@{b}.Cls]'], lambda p, q: p, lambda p, q: q[0]),
    # 3: references inside a tuple inside a dict value
    (['{b}.consumer.p = {{"k": (@{b}.Cls(), 1)}}', '{b}.consumer.q = {{"k": (1, [@{b}.Cls])}}'],
     lambda p, q: p['k'][0], lambda p, q: q['k'][1][0]),
    # 4: the unevaluated reference is a dict KEY
    (['{b}.consumer.p = @{b}.Cls()', '{b}.consumer.q = {{@{b}.Cls: 1}}'], lambda p, q: p, lambda p, q: list(q)[0]),
]
NRS = len(REFSHAPES)


def c19_method_after(f1: int, f2: int, same_file: bool, v: int, refshape: int = 0) -> bool:
  """
  pre: 0 <= f1 < 5 and 0 <= f2 < 5 and 0 <= refshape < 5
  """
  world.fresh()
  cleanup_vfx()
  f1, f2 = rt.pick(f1, NFORM), rt.pick(f2, NFORM)
  same_file = rt.flag(same_file)
  refshape = rt.pick(refshape, NRS)
  rt.sig(('method_after', f1, f2, same_file, refshape), nontrivial=True)
  gin.constant('vwc.V', v)
  try:
    with rt.native():
      imp1, b1 = FORMS[f1]('alpha')
      imp2, b2 = FORMS[f2]('alpha')
      reflines, getp, getq = REFSHAPES[refshape][:3]
      clslines = REFSHAPES[refshape][3] if len(REFSHAPES[refshape]) > 3 else ['{b}.Cls.x = 41']
      first = [DR, imp1] + [l.format(b=b1) for l in clslines + reflines]
      if same_file:
        gin.parse_config('\n'.join(first + ['%s.Cls.meth.m = %%vwc.V' % b1]) + '\n')
      else:
        gin.parse_config('\n'.join(first) + '\n')
        gin.parse_config('\n'.join([DR, imp2, '%s.Cls.meth.m = %%vwc.V' % b2]) + '\n')
    # configuring a method of an already referenced class keeps existing references working
    gin.get_configurable(A.consumer)()
    with rt.native():
      p, q = A.CALLS[-1][1], A.CALLS[-1][2]
      try:
        p, qc = getp(p, q), getq(p, q)
      except Exception as e:
        return rt.no('reference to the class broken: %r %r (%r)' % (p, q, e))
      if not isinstance(p, A.Cls) or not (isinstance(qc, type) and issubclass(qc, A.Cls)):
        return rt.no('reference to the class broken: %r %r' % (p, qc))
      if p.x != 41 or qc().x != 41:
        return rt.no('bindings of the class lost when one of its methods was configured')
    del A.CALLS[:]
    p.meth()
    if not rt.same('method configured through the existing reference', A.CALLS[-1][1], v):
      return False
    del A.CALLS[:]
    qc().meth()
    return rt.same('method configured through the unevaluated reference', A.CALLS[-1][1], v)
  finally:
    cleanup_vfx()


# (statements of one file, [(python object getter, parameter, value)])
COLLIDE_FILES = [
    ('import vfx.alpha.mod\nvfx.alpha.mod.fn.x = 11\n', 'alpha.fn'),            # plain dotted import: binds `vfx`
    ('from vfy import vfx\nvfx.hfn.x = 22\n', 'vfy.hfn'),                        # from-import: binds `vfx` too
    ('import vfy.vfx as mod\nmod.hfn.x = 22\n', 'vfy.hfn'),                      # alias `mod`
    ('from vfx.alpha import mod\nmod.fn.x = 11\n', 'alpha.fn'),                  # from-import: binds `mod` too
    ('import vfx.beta.mod\nvfx.beta.mod.fn.x = 33\n', 'beta.fn'),               # second plain import of package vfx
    ('import vfx.alpha.mod as vfy\nvfy.Cls.x = 44\n', 'alpha.Cls'),              # alias equal to another package name
    ('import vfy.vfx\nvfy.vfx.hfn.x = 22\n', 'vfy.hfn'),                        # plain import of package vfy
    ('from vfx.beta import mod\nmod.fn.x = 33\n', 'beta.fn'),                    # a second module bound as `mod`
    ('from vfx.delta import mod\nmod.fn.x = 55\n', 'delta.fn'),                  # ... and a third one
    # two plain imports of the same depth with the same leaf name in ONE file
    ('import vfx.alpha.mod\nimport vfx.beta.mod\nvfx.alpha.mod.fn.x = 11\nvfx.beta.mod.fn.x = 33\n', 'alpha.fn+beta.fn'),
    # -- widened: collisions and duplicates inside ONE file
    # a bound name rebound mid-file: every statement uses the binding in force where it stands
    ('import vfx.alpha.mod as m\nm.fn.x = 11\nimport vfx.beta.mod as m\nm.fn.x = 33\n', 'alpha.fn+beta.fn'),
    ('from vfy import vfx\nvfx.hfn.x = 22\nimport vfx.alpha.mod\nvfx.alpha.mod.fn.x = 11\n', 'vfy.hfn+alpha.fn'),
    # the same module under two names, bindings through both
    ('import vfx.alpha.mod as a1\nfrom vfx.alpha import mod\na1.fn.x = 11\nmod.Cls.x = 44\n', 'alpha.fn+alpha.Cls'),
    # a user alias equal to a name the import manager generates (`mod2`)
    ('import vfy.vfx as mod2\nmod2.hfn.x = 22\n', 'vfy.hfn'),
    # package-level import with attribute descent, next to the plain imports that bind `vfx` as well
    ('import vfx\nvfx.alpha.mod.fn.x = 11\nvfx.beta.mod.fn.x = 33\n', 'alpha.fn+beta.fn'),
]
NCF = len(COLLIDE_FILES)
COLLIDE_VAL = {'alpha.fn': 11, 'vfy.hfn': 22, 'beta.fn': 33, 'alpha.Cls': 44, 'delta.fn': 55}


def c19_collide(f1: int, f2: int, f3: int, n: int) -> bool:
  """
  pre: 0 <= f1 < 15 and 0 <= f2 < 15 and 0 <= f3 < 15 and 1 <= n <= 3
  """
  import vfy.vfx as H
  import vfx.delta.mod as D
  world.fresh()
  cleanup_vfx()
  fs = [rt.pick(f, NCF) for f in (f1, f2, f3)[:n]]
  rt.sig(('collide', tuple(fs)), nontrivial=len(set(fs)) >= 2)
  try:
    with rt.native():
      for f in fs:
        gin.parse_config(DR + '\n' + COLLIDE_FILES[f][0])

      def observe():
        out = {}
        for key, fn_, log in (('alpha.fn', A.fn, A.CALLS), ('beta.fn', B.fn, B.CALLS),
                              ('vfy.hfn', H.hfn, H.CALLS), ('alpha.Cls', A.Cls, A.CALLS),
                              ('delta.fn', D.fn, D.CALLS)):
          del log[:]
          try:
            gin.get_configurable(fn_)()
            out[key] = log[-1][1]
          except Exception as e:
            out[key] = 'unregistered'
        return out

      before = observe()
      want = {'alpha.fn': 0, 'beta.fn': 0, 'vfy.hfn': 0, 'alpha.Cls': 0, 'delta.fn': 0}
      for f in fs:
        for k in COLLIDE_FILES[f][1].split('+'):
          want[k] = COLLIDE_VAL[k]
      for k, v in want.items():
        if before[k] != 'unregistered' and before[k] != v:
          return rt.no('before serialisation %s received %r, expected %r' % (k, before[k], v))
      text = gin.config_str()
      # the bound names of the emitted imports must be unique
      gc._CONFIG.clear(); gc._CONFIG_PROVENANCE.clear(); gc._IMPORTS.clear()
      try:
        gin.parse_config(text)
      except Exception as e:
        return rt.no('config string does not re-parse: %r\n%s' % (e, text))
      after = observe()
      for k in want:
        if before[k] != 'unregistered' and after[k] != before[k]:
          return rt.no('after re-parsing the config string %s receives %r instead of %r\n%s' %
                       (k, after[k], before[k], text))
      return gin.config_str() == text or rt.no('config string not stable\n%s' % text)
  finally:
    cleanup_vfx()
    for sel in list(gc._REGISTRY._selector_map):
      if (getattr(gc._REGISTRY[sel].wrapped, '__module__', '') or '').startswith(('vfy',)):
        gc._REGISTRY.pop(sel)
    for obj in list(gc._INVERSE_REGISTRY):
      if (getattr(obj, '__module__', '') or '').startswith('vfy'):
        del gc._INVERSE_REGISTRY[obj]


# ---- widened: one object addressed through several import statements AND attribute paths ---------------------------------
def _instance(cls):
  return object.__new__(cls)


def _calls(mod):
  return mod.CALLS


def _recv_fn(getter, log):
  def recv():
    gin.get_configurable(getter())()
    return [log()[-1][1]]
  return recv


def _recv_cls(getter):
  def recv():
    return [gin.get_configurable(getter())().x]
  return recv


def _recv_meth(fgetter, name, log, classes):
  """The function-level entry (called on a plain instance) and every class that is registered must agree."""
  def recv():
    out = []
    gin.get_configurable(fgetter())(_instance(classes[0]()))
    out.append(log()[-1][1])
    for c in classes:
      with rt.native():
        try:
          wrapped_cls = gin.get_configurable(c())
        except ValueError:
          wrapped_cls = None      # the statement does not say which of the classes a shared method registers
      if wrapped_cls is not None:
        getattr(wrapped_cls(), name)()
        out.append(log()[-1][1])
    return out
  return recv


def _recv_static():
  def recv():
    out = []
    gin.get_configurable(W.Cls.smeth)()
    out.append(W.CALLS[-1][1])
    gin.get_configurable(W.Cls).smeth()          # reached through the registered class object
    out.append(W.CALLS[-1][1])
    return out
  return recv


IMP_W = ['import vfw.core as wc', 'import vfw', 'from vfw import core', 'from vfw import core as k']
# group: (label, parameter, python object getter, receive(), [(import statement, dotted path)], setup)
GROUPS = [
    # 0 package-level imports with attribute descent (vfx.alpha.mod.fn)
    ('A.fn', 'x', lambda: A.fn, _recv_fn(lambda: A.fn, lambda: A.CALLS),
     [('import vfx.alpha.mod as am', 'am.fn'), ('import vfx', 'vfx.alpha.mod.fn'),
      ('from vfx import alpha', 'alpha.mod.fn'), ('import vfx.beta.mod', 'vfx.alpha.mod.fn'),
      ('import vfx as vx', 'vx.alpha.mod.fn')]),
    # 1 re-export in the package __init__ and a module-level alias: one function object, four paths
    ('W.fn', 'x', lambda: W.fn, _recv_fn(lambda: W.fn, lambda: W.CALLS),
     [('import vfw.core as wc', 'wc.fn'), ('import vfw', 'vfw.fn'), ('from vfw import core', 'core.fn2'),
      ('import vfw', 'vfw.core.fn')]),
    # 2 a method and the same function object inherited by a subclass
    ('W.Cls.meth', 'm', lambda: W.Cls.meth, _recv_meth(lambda: W.Cls.meth, 'meth', lambda: W.CALLS,
                                                        [lambda: W.Cls, lambda: W.Sub]),
     [('import vfw.core as wc', 'wc.Cls.meth'), ('import vfw.core as wc', 'wc.Sub.meth'),
      ('import vfw', 'vfw.core.Cls.meth'), ('from vfw import core', 'core.Sub.meth')]),
    # 3 a staticmethod
    ('W.Cls.smeth', 'm', lambda: W.Cls.smeth, _recv_static(),
     [('import vfw.core as wc', 'wc.Cls.smeth'), ('import vfw', 'vfw.core.Cls.smeth'),
      ('from vfw import core', 'core.Cls.smeth')]),
    # 4 a method of a nested class
    ('W.Outer.Inner.meth', 'm', lambda: W.Outer.Inner.meth,
     _recv_meth(lambda: W.Outer.Inner.meth, 'meth', lambda: W.CALLS, [lambda: W.Outer.Inner]),
     [('import vfw.core as wc', 'wc.Outer.Inner.meth'), ('import vfw', 'vfw.core.Outer.Inner.meth'),
      ('from vfw import core as k', 'k.Outer.Inner.meth')]),
    # 5 a top-level package whose name sorts before `__gin__`
    ('Z.fn', 'x', lambda: Z.fn, _recv_fn(lambda: Z.fn, lambda: Z.CALLS),
     [('import Vfz.mod', 'Vfz.mod.fn'), ('import Vfz.mod as zm', 'zm.fn'), ('from Vfz import mod as zmod', 'zmod.fn')]),
    # 6-9 objects registered by a decorator when their module was imported, addressed from a dynamic-registration file
    ('D.dfn', 'x', lambda: deco().dfn, _recv_fn(lambda: deco().dfn, lambda: deco().CALLS),
     [('import vfw.deco as d', 'd.dfn'), ('from vfw import deco', 'deco.dfn'), ('import vfw.deco', 'vfw.deco.dfn')]),
    ('D.DCls', 'x', lambda: deco().DCls, _recv_cls(lambda: deco().DCls),
     [('import vfw.deco as d', 'd.DCls'), ('from vfw import deco', 'deco.DCls'), ('import vfw.deco', 'vfw.deco.DCls')]),
    ('D.DCls.dmeth', 'm', lambda: deco().DCls.dmeth,
     _recv_meth(lambda: deco().DCls.dmeth, 'dmeth', lambda: deco().CALLS, [lambda: deco().DCls]),
     [('import vfw.deco as d', 'd.DCls.dmeth'), ('from vfw import deco', 'deco.DCls.dmeth'),
      ('import vfw.deco', 'vfw.deco.DCls.dmeth')]),
    ('D.rfn', 'x', lambda: deco().rfn, _recv_fn(lambda: deco().rfn, lambda: deco().CALLS),   # registered as vw19r.renamed_fn
     [('import vfw.deco as d', 'd.rfn'), ('from vfw import deco', 'deco.rfn')]),
    # 10 registered from Python by external_configurable before the file is parsed
    ('ext A.fn', 'x', lambda: A.fn, _recv_fn(lambda: A.fn, lambda: A.CALLS),
     [('import vfx.alpha.mod as am', 'am.fn'), ('from vfx.alpha import mod', 'mod.fn')]),
]
NG = len(GROUPS)
NSP = 5
# (shape of the two bindings, which string is round-tripped)
MODES = [('plain', 'config'), ('scoped', 'config'), ('block', 'config'), ('plain', 'operative'), ('scoped', 'operative')]
NMODE = len(MODES)


def _binding(shape, path, param, value):
  if shape == 'plain':
    return '%s.%s = %s' % (path, param, value)
  if shape == 'scoped':
    return 'a/b/%s.%s = %s' % (path, param, value)
  return '%s:\n  %s = %s' % (path, param, value)


def c19_paths(obj: int, s1: int, s2: int, structure: int, mode: int, v1: int, v2: int) -> bool:
  """
  pre: 0 <= obj < 11 and 0 <= s1 < 5 and 0 <= s2 < 5 and 0 <= structure < 4 and 0 <= mode < 5
  """
  world.fresh()
  cleanup19()
  deco()
  obj = rt.pick(obj, NG)
  s1, s2 = rt.pick(s1, NSP), rt.pick(s2, NSP)
  structure = rt.pick(structure, 4)     # 0 two parses, 1 file 2 included by file 1, 2 file 1 included by file 2,
  mode = rt.pick(mode, NMODE)           # 3 ONE file holding both imports and both bindings
  label, param, getter, recv, spellings = GROUPS[obj]
  if s1 >= len(spellings) or s2 >= len(spellings):
    rt.discard()
  shape, which = MODES[mode]
  rt.sig(('paths', label, s1, s2, structure, mode), nontrivial=True)
  gin.constant('vwc.V1', v1)
  gin.constant('vwc.V2', v2)
  try:
    with rt.native():
      if label == 'ext A.fn':
        gin.external_configurable(A.fn, module='vw19e')
      (imp1, path1), (imp2, path2) = spellings[s1], spellings[s2]
      body1 = [imp1, _binding(shape, path1, param, '%vwc.V1')]
      body2 = [imp2, _binding(shape, path2, param, '%vwc.V2')]
      t1, t2 = '\n'.join([DR] + body1) + '\n', '\n'.join([DR] + body2) + '\n'
      try:
        if structure == 0:
          gin.parse_config(t1)
          gin.parse_config(t2)
        elif structure == 1:
          world.use_mem_fs({'two.gin': t2})
          gin.parse_config(t1 + "include 'two.gin'\n")
        elif structure == 2:
          world.use_mem_fs({'one.gin': t1})
          gin.parse_config(DR + "\ninclude 'one.gin'\n" + '\n'.join(body2) + '\n')
        else:
          gin.parse_config('\n'.join([DR] + body1 + body2) + '\n')
      except Exception as e:
        return rt.no('a valid spelling was rejected: %r' % (e,))
      the_object = getter()
      if gc._inverse_lookup(the_object) is None:
        return rt.no('the object the name resolves to is not the one registered')
      scope = 'a/b' if shape == 'scoped' else ''

    def observe(want, why):
      with gin.config_scope(scope):
        got = recv()
      for g in got:
        if not rt.same(why, g, want):
          return False
      return True

    # -- both spellings configure the very object: the later binding is the one it receives -------------------------
    if not observe(v2, 'the very object is configured'):
      return False
    # -- the object's bindings seen from Python
    if shape != 'scoped':
      seen = gin.get_bindings(the_object)
      if not rt.same('get_bindings(object)', seen.get(param), v2):
        return False
    # -- the emitted (operative) config string re-parses and configures the same object -----------------------------
    with rt.native():
      try:
        text = gin.config_str() if which == 'config' else gin.operative_config_str()
      except Exception as e:
        return rt.no('%s_str() raised %r' % (which, e))
      gc._CONFIG.clear(); gc._CONFIG_PROVENANCE.clear(); gc._IMPORTS.clear(); gc._OPERATIVE_CONFIG.clear()
      try:
        gin.parse_config(text)
      except Exception as e:
        return rt.no('the emitted string does not re-parse: %r\n%s' % (e, text))
      if which == 'config' and gin.config_str() != text:
        return rt.no('config string not stable\n%s' % text)
    if not observe(v2, 'after re-parsing the emitted string'):
      return False
    # -- Python-side binding through the registry's own selector reaches the same object -----------------------------
    with rt.native():
      regsel = gc._inverse_lookup(the_object).selector
      key = (scope + '/' if scope else '') + regsel + '.' + param
    gin.bind_parameter(key, v1)
    if not rt.same('query_parameter', gin.query_parameter(key), v1):
      return False
    return observe(v1, 'after bind_parameter from Python')
  finally:
    cleanup19()


# ---- widened: two RELATED objects configured from two files ----------------------------------------------------------
def _pforms(module, alias):
  """Five import forms of a module `a.b.c`: (statement, name the module is reachable under)."""
  pkg, leaf = module.rsplit('.', 1)
  return [('import %s' % module, module), ('import %s as %s' % (module, alias), alias),
          ('from %s import %s' % (pkg, leaf), leaf), ('from %s import %s as %s' % (pkg, leaf, alias), alias),
          ('import %s' % pkg, module)]


def _meth_of_cls(name):
  def recv():
    getattr(gin.get_configurable(W.Cls)(), name)()
    return W.CALLS[-1][1]
  return recv


def _cls_x():
  return gin.get_configurable(W.Cls)().x


def _sib(mod):
  def recv():
    gin.get_configurable(mod.fn)()
    return mod.CALLS[-1][1]
  return recv


# (label, module of file 1, module of file 2, alias used by both, member+param of file 1 / file 2, receivers)
RELS = [
    ('two methods of one class', 'vfw.core', 'vfw.core', ('wc', 'wc'), 'Cls.meth.m', 'Cls.meth2.m',
     _meth_of_cls('meth'), _meth_of_cls('meth2')),
    ('sibling modules, same alias', 'vfw.sib.one', 'vfw.sib.two', ('m', 'm'), 'fn.x', 'fn.x', _sib(S1), _sib(S2)),
    ('method, then the class', 'vfw.core', 'vfw.core', ('wc', 'wc'), 'Cls.meth.m', 'Cls.x', _meth_of_cls('meth'), _cls_x),
    ('class, then a method', 'vfw.core', 'vfw.core', ('wc', 'wc'), 'Cls.x', 'Cls.meth.m', _cls_x, _meth_of_cls('meth')),
]
NREL = len(RELS)


def c19_pair(rel: int, f1: int, f2: int, structure: int, v1: int, v2: int) -> bool:
  """
  pre: 0 <= rel < 4 and 0 <= f1 < 5 and 0 <= f2 < 5 and 0 <= structure < 4
  """
  world.fresh()
  cleanup19()
  rel = rt.pick(rel, NREL)
  f1, f2 = rt.pick(f1, 5), rt.pick(f2, 5)
  structure = rt.pick(structure, 4)
  label, mod1, mod2, aliases, tgt1, tgt2, recv1, recv2 = RELS[rel]
  rt.sig(('pair', label, f1, f2, structure), nontrivial=True)
  gin.constant('vwc.V1', v1)
  gin.constant('vwc.V2', v2)
  try:
    with rt.native():
      imp1, b1 = _pforms(mod1, aliases[0])[f1]
      imp2, b2 = _pforms(mod2, aliases[1])[f2]
      body1 = [imp1, '%s.%s = %%vwc.V1' % (b1, tgt1)]
      body2 = [imp2, '%s.%s = %%vwc.V2' % (b2, tgt2)]
      t1, t2 = '\n'.join([DR] + body1) + '\n', '\n'.join([DR] + body2) + '\n'
      try:
        if structure == 0:
          gin.parse_config(t1)
          gin.parse_config(t2)
        elif structure == 1:
          world.use_mem_fs({'two.gin': t2})
          gin.parse_config(t1 + "include 'two.gin'\n")
        elif structure == 2:
          world.use_mem_fs({'one.gin': t1})
          gin.parse_config(DR + "\ninclude 'one.gin'\n" + '\n'.join(body2) + '\n')
        else:
          gin.parse_config('\n'.join([DR] + body1 + body2) + '\n')   # ONE file; with one alias it is rebound mid-file
      except Exception as e:
        return rt.no('valid files were rejected: %r' % (e,))
    if not rt.same('object of file 1 configured', recv1(), v1):
      return False
    if not rt.same('object of file 2 configured', recv2(), v2):
      return False
    with rt.native():
      try:
        text = gin.config_str()
      except Exception as e:
        return rt.no('config_str() raised %r' % (e,))
      gc._CONFIG.clear(); gc._CONFIG_PROVENANCE.clear(); gc._IMPORTS.clear()
      try:
        gin.parse_config(text)
      except Exception as e:
        return rt.no('config string does not re-parse: %r\n%s' % (e, text))
      if gin.config_str() != text:
        return rt.no('config string not stable\n%s' % text)
    if not rt.same('object of file 1 after the round trip', recv1(), v1):
      return False
    return rt.same('object of file 2 after the round trip', recv2(), v2)
  finally:
    cleanup19()


HARNESSES = {
    'c19_collide': dict(
        fn='c19_collide',
        anchors=['gin.config:add_import', 'gin.config:_config_str', 'gin.config:minimal_selector'],
        smoke=[dict(f1=0, f2=1, f3=3, n=3), dict(f1=1, f2=0, f3=0, n=2), dict(f1=10, f2=11, f3=12, n=3),
               dict(f1=13, f2=3, f3=7, n=3), dict(f1=14, f2=4, f3=11, n=3)],
        tiers={'quick': dict(split=dict(f1=list(range(NCF))), fixed=dict(n=3), budget_s=100),
               'thorough': dict(split=dict(f1=list(range(NCF)), f2=list(range(NCF))), fixed=dict(n=3),
                                budget_s=300)},
        bounds='3 files in every order from 15 whose imports bind colliding names (plain dotted import of package vfx '
               'x2, from-import / alias / plain import of vfy.vfx, alias equal to another package name, three modules '
               'bound as `mod`, two plain imports of the same depth and leaf in one file; and inside ONE file: a bound '
               'name rebound mid-file (alias `m`, root name `vfx`), one module under two names, a user alias equal to '
               'the generated `mod2`, `import vfx` with attribute descent to two sub-modules); the emitted config '
               'string must re-parse and configure the same Python objects'),
    'c19_spellings': dict(
        fn='c19_spellings',
        anchors=['gin.config:process_import', 'gin.config:_resolve_selector', 'gin.config:_register',
                 'gin.config:get_configurable', 'gin.config:add_import'],
        smoke=[dict(target=0, f1=0, f2=1, structure=0, ref_first=False, v1=1, v2=2),
               dict(target=2, f1=4, f2=4, structure=1, ref_first=True, v1=1, v2=2),
               dict(target=3, f1=1, f2=1, structure=2, ref_first=True, v1=1, v2=2)],
        tiers={'quick': dict(split=dict(target=[0, 1, 2, 3], f1=list(range(NFORM))), budget_s=100),
               'thorough': dict(split=dict(target=[0, 1, 2, 3], f1=list(range(NFORM)), f2=list(range(NFORM))),
                                budget_s=300)},
        bounds='4 target objects of a fixture package (function, class, nested class, method) x 5 import forms in each '
               'of two files (incl. a bound name that collides across files and with the sibling package) x 3 structures '
               '(separate parses, file 2 included by file 1, file 1 included by file 2) x reference before binding or '
               'not; bound values: all ints (through constants)'),
    'c19_paths': dict(
        fn='c19_paths',
        anchors=['gin.config:process_import', 'gin.config:_resolve_selector', 'gin.config:_import_source',
                 'gin.config:_register', 'gin.config:require_configurable', 'gin.config:minimal_selector',
                 'gin.config:operative_config_str', 'gin.config:bind_parameter'],
        smoke=[dict(obj=0, s1=1, s2=3, structure=0, mode=0, v1=1, v2=2),
               dict(obj=0, s1=3, s2=1, structure=0, mode=0, v1=1, v2=2),
               dict(obj=0, s1=2, s2=4, structure=3, mode=3, v1=1, v2=2),
               dict(obj=1, s1=1, s2=2, structure=1, mode=1, v1=1, v2=2),
               dict(obj=1, s1=3, s2=0, structure=2, mode=2, v1=1, v2=2),
               dict(obj=2, s1=0, s2=0, structure=0, mode=4, v1=1, v2=2),
               dict(obj=2, s1=1, s2=1, structure=3, mode=0, v1=1, v2=2),
               dict(obj=3, s1=0, s2=2, structure=0, mode=0, v1=1, v2=2),
               dict(obj=4, s1=1, s2=2, structure=1, mode=2, v1=1, v2=2),
               dict(obj=6, s1=0, s2=2, structure=0, mode=3, v1=1, v2=2),
               dict(obj=7, s1=1, s2=0, structure=2, mode=0, v1=1, v2=2),
               dict(obj=8, s1=0, s2=0, structure=3, mode=0, v1=1, v2=2),
               dict(obj=9, s1=0, s2=1, structure=0, mode=1, v1=1, v2=2),
               dict(obj=10, s1=0, s2=1, structure=0, mode=0, v1=1, v2=2)],
        # quick: binding shape / emitted string combined as (plain, config_str), (block, config_str), (scoped, operative)
        tiers={'quick': dict(split=dict(obj=list(range(NG)), mode=[0, 2, 4], structure=[0, 1, 2, 3]), budget_s=150),
               'thorough': dict(split=dict(obj=list(range(NG)), structure=[0, 1, 2, 3], mode=list(range(NMODE))),
                                budget_s=300)},
        bounds='11 objects, each addressed through 2-5 (import statement, attribute path) spellings in each of two '
               'files: package-level imports with attribute descent (`import vfx`, `from vfx import alpha`, a sibling '
               'reached through the parent binding, `import vfx as vx`), a re-export in a package __init__, a '
               'module-level alias, a method and the same function inherited by a subclass, a staticmethod, a method of '
               'a nested class, a top-level package whose name starts with an uppercase letter, a function / class / '
               'method of a class / renamed function registered by @gin.configurable at import, a function registered '
               'by external_configurable before the parse; x 4 structures (separate parses, include either way, ONE '
               'file holding both imports) x 3 binding shapes (plain, scoped a/b/, block) x round trip through '
               'config_str() or operative_config_str(); then bind_parameter / query_parameter from Python through the '
               'registry selector; bound values: all ints (through constants)'),
    'c19_pair': dict(
        fn='c19_pair',
        anchors=['gin.config:process_import', 'gin.config:_register', 'gin.config:_find_registered_methods',
                 'gin.config:add_import'],
        smoke=[dict(rel=0, f1=1, f2=1, structure=0, v1=1, v2=2), dict(rel=1, f1=0, f2=2, structure=1, v1=1, v2=2),
               dict(rel=2, f1=0, f2=2, structure=2, v1=1, v2=2), dict(rel=3, f1=2, f2=2, structure=3, v1=1, v2=2)],
        tiers={'quick': dict(split=dict(rel=list(range(NREL)), f1=[0, 1, 2, 3, 4]), budget_s=100),
               'thorough': dict(split=dict(rel=list(range(NREL)), f1=[0, 1, 2, 3, 4], f2=[0, 1, 2, 3, 4]),
                                budget_s=300)},
        bounds='two related objects configured from two files (or from one file, 4 structures) with 5 x 5 import forms: '
               'two methods of one class; same-named functions of two sibling modules bound to the SAME alias (rebound '
               'mid-file in the one-file structure); a method then its class; a class then one of its methods; each '
               'object must receive its own value, before and after the config-string round trip; values: all ints'),
    'c19_errors': dict(
        fn='c19_errors', anchors=['gin.config:process_import', 'gin.config:_resolve_selector'],
        smoke=[dict(case=c) for c in range(NE)],
        tiers={'quick': dict(split={}, budget_s=60), 'thorough': dict(split={}, budget_s=60)},
        bounds='30 error cases (name not imported - also inside a nested value, a scoped binding, a block header, a '
               'scoped reference; a name only another form of the import would provide (5 cases); missing attribute, '
               'missing intermediate attribute; reserved name gin through an alias, a from-import alias, plain `import '
               'gin` / `import gin.config`; late enabling after an import / from-import / a second enabling statement; '
               'aliased enabling (also to its own name); unknown __gin__ feature (also after enabling, also aliased); '
               'import of the including file, of an included file, of a sibling include, of a grandparent / grandchild) '
               '+ 4 control cases'),
    'c19_method_after': dict(
        fn='c19_method_after', anchors=['gin.config:_register', 'gin.config:initialize'],
        smoke=[dict(f1=1, f2=1, same_file=True, v=3, refshape=0), dict(f1=1, f2=3, same_file=False, v=3, refshape=0),
               dict(f1=0, f2=0, same_file=False, v=3, refshape=1), dict(f1=2, f2=2, same_file=True, v=3, refshape=2),
               dict(f1=3, f2=3, same_file=True, v=3, refshape=3), dict(f1=4, f2=4, same_file=False, v=3, refshape=4)],
        tiers={'quick': dict(split=dict(f1=list(range(NFORM)), refshape=list(range(NRS))), budget_s=100),
               'thorough': dict(split=dict(f1=list(range(NFORM)), f2=list(range(NFORM)), refshape=list(range(NRS))),
                                budget_s=300)},
        bounds='a class referenced (evaluated and unevaluated) and later one of its methods configured, from the same '
               'file or from another file with any of 5 x 5 import forms; the references sit at top level / in a list, '
               'under scopes, in a macro, in a tuple inside a dict value, or as a dict KEY; bound value: all ints'),
}
ASSUMPTIONS = ['fixture packages /verif/fixtures/vfx, vfy, vfw, Vfz; the import system and attribute lookup are CPython C '
               'code executed natively',
               'registry entries of fixture objects are removed between paths through the private registries; the '
               'entries made by the decorators of vfw.deco at import are restored',
               'methods are observed through gin.get_configurable(function)(plain instance) and through every class '
               'among {named class, base class, subclass} that is registered; which of those classes a method '
               'registration registers is not judged']
OUTSIDE = ('not exercised: gin.external_configurable / re-registration from Python AFTER a dynamic parse, files mixing '
           'dynamic and static registration, from-import of a non-module, C-implemented callables, custom metaclasses '
           'and __slots__, gin builtins other than macros/constants inside dynamic files, clear_config() followed by '
           'config_str(), diamond includes; instance.staticmethod() on instances made by the registered class')
