"""C19 - dynamic registration resolves names through the file's own imports."""
import os
import sys

sys.path.insert(0, os.path.join(os.path.dirname(os.path.dirname(os.path.dirname(
    os.path.abspath(__file__)))), 'fixtures'))

import gin
from gin import config as gc
from vf import rt
from vf import world
import vfx.alpha.mod as A
import vfx.beta.mod as B

DR = 'from __gin__ import dynamic_registration'
# (import statement, bound name) for vfx.<pkg>.mod
FORMS = [
    lambda pkg: ('import vfx.%s.mod' % pkg, 'vfx.%s.mod' % pkg),
    lambda pkg: ('import vfx.%s.mod as m_%s' % (pkg, pkg), 'm_%s' % pkg),
    lambda pkg: ('from vfx.%s import mod' % pkg, 'mod'),
    lambda pkg: ('from vfx.%s import mod as x_%s' % (pkg, pkg), 'x_%s' % pkg),
    lambda pkg: ('from vfx.%s import mod as shared' % pkg, 'shared'),     # colliding bound name
]
NFORM = len(FORMS)
TARGETS = [('fn', 'x', lambda: A.fn), ('Cls', 'x', lambda: A.Cls),
           ('Outer.Inner', 'y', lambda: A.Outer.Inner), ('Cls.meth', 'm', lambda: A.Cls.meth)]


STATIC = ('vfx.gamma', 'vfx.zeta')    # decorator-registered at import: they stay registered


def cleanup_vfx():
  with rt.native():
    for sel in list(gc._REGISTRY._selector_map):
      c = gc._REGISTRY[sel]
      mod = getattr(c.wrapped, '__module__', '') or ''
      if mod.startswith('vfx') and mod not in STATIC:
        gc._REGISTRY.pop(sel)
    for obj in list(gc._INVERSE_REGISTRY):
      m_ = getattr(obj, '__module__', '') or ''
      if m_.startswith('vfx') and m_ not in STATIC:
        del gc._INVERSE_REGISTRY[obj]
    gc._RENAMED_SELECTORS.clear()
    del A.CALLS[:]
    del B.CALLS[:]


def received(target):
  """Calls the registry's version of the target object and returns what it received."""
  name = TARGETS[target][0]
  del A.CALLS[:]
  if name == 'Cls.meth':
    obj = gin.get_configurable(A.Cls)()
    obj.meth()
    return A.CALLS[-1][1]
  gin.get_configurable(TARGETS[target][2]())()
  return A.CALLS[-1][1]


def c19_spellings(target: int, f1: int, f2: int, structure: int, ref_first: bool,
                  v1: int, v2: int) -> bool:
  """
  pre: 0 <= target < 4 and 0 <= f1 < 5 and 0 <= f2 < 5 and 0 <= structure < 3
  """
  world.fresh()
  cleanup_vfx()
  target = rt.pick(target, 4)
  f1, f2 = rt.pick(f1, NFORM), rt.pick(f2, NFORM)
  structure = rt.pick(structure, 3)       # 0: two separate parses, 1: file 2 is included by file 1,
  ref_first = rt.flag(ref_first)          # 2: file 1 is included by file 2
  name, param, _ = TARGETS[target]
  rt.sig(('spellings', name, f1, f2, structure, ref_first), nontrivial=f1 != f2)
  gin.constant('vwc.V1', v1)
  gin.constant('vwc.V2', v2)
  try:
    with rt.native():
      imp1, b1 = FORMS[f1]('alpha')
      imp2, b2 = FORMS[f2]('alpha')
      impb, bb = FORMS[f2]('beta')      # beta.mod under the same form: colliding names
      cls1 = b1 + '.' + name.split('.')[0]
      file1 = [DR, imp1, 'import vw_dummy_never' if False else '']
      if ref_first and name != 'fn':
        file1.append('%s.consumer.p = @%s()' % (b1, b1 + '.' + ('Cls' if name == 'Cls.meth' else name)))
      file1.append('%s.%s.%s = %%vwc.V1' % (b1, name, param))
      file2 = [DR, imp2]
      if bb != b2:
        file2 += [impb, '%s.fn.x = 77' % bb]
      file2.append('%s.%s.%s = %%vwc.V2' % (b2, name, param))
      t1, t2 = '\n'.join(file1) + '\n', '\n'.join(file2) + '\n'
      if structure == 0:
        gin.parse_config(t1)
        gin.parse_config(t2)
      elif structure == 1:
        world.use_mem_fs({'two.gin': t2})
        gin.parse_config(t1 + "include 'two.gin'\n")
      else:
        world.use_mem_fs({'one.gin': t1})
        lines = t2.split('\n')
        gin.parse_config('\n'.join(lines[:1]) + "\ninclude 'one.gin'\n" + '\n'.join(lines[1:]))
      # -- different spellings address ONE entry, last writer wins ----------------------------------------
      keys = [k for k in gc._CONFIG if k[1].endswith(name) and 'beta' not in k[1]]
      if len(keys) != 1:
        return rt.no('spellings created %r' % (keys,))
    got = received(target)
    if not rt.same('the very object is configured', got, v2):
      return False
    with rt.native():
      if bb != b2:
        del B.CALLS[:]
        gin.get_configurable(B.fn)()
        if B.CALLS[-1][1] != 77:
          return rt.no('same-named member of the other package confused')
      # -- references made before the (re-)registration keep working -----------------------------------------
      if ref_first and name != 'fn':
        del A.CALLS[:]
        gin.get_configurable(A.consumer)()
        p = A.CALLS[-1][1]
        want_cls = A.Outer.Inner if name == 'Outer.Inner' else A.Cls
        if not isinstance(p, want_cls):
          return rt.no('existing reference broken: %r' % (p,))
      # -- the config string re-parses and its selectors resolve to the same objects -----------------------------
      text = gin.config_str()
      before = {k: dict(d) for k, d in gc._CONFIG.items()}
      gc._CONFIG.clear(); gc._CONFIG_PROVENANCE.clear(); gc._IMPORTS.clear()
      gin.parse_config(text)
      if set(gc._CONFIG) != set(before):
        return rt.no('config string re-parse: %r vs %r\n%s' % (sorted(gc._CONFIG), sorted(before), text))
      if gin.config_str() != text:
        return rt.no('config string not stable')
    got = received(target)
    return rt.same('after re-parse of the config string', got, v2)
  finally:
    cleanup_vfx()


ERRORS = [
    # (text, expected exception)
    (DR + '\nimport vfx.alpha.mod as am\nbm.fn.x = 1\n', NameError),                 # not imported
    (DR + '\nimport vfx.alpha.mod as am\nam.nosuch.x = 1\n', AttributeError),
    (DR + '\nimport vfx.alpha.mod as gin\n', ValueError),                              # reserved name
    ('import vfx.alpha.mod\n' + DR + '\n', SyntaxError),                               # late enabling
    ('from __gin__ import dynamic_registration as dr\n', SyntaxError),                 # aliased enabling
    ('from __gin__ import no_such_feature\n', SyntaxError),
    (DR + "\nimport vfx.alpha.mod as am\ninclude 'child.gin'\n", NameError),          # child uses parent's import
    (DR + "\ninclude 'defs.gin'\nam.fn.x = 1\n", NameError),                            # parent uses child's import
    (DR + '\nimport vfx.alpha.mod as am\nam.consumer.p = @bm.Cls()\n', NameError),          # reference, not imported
    (DR + '\nimport vfx.alpha.mod as am\nam.fn.x = 1\n', None),                         # control: fine
    (DR + "\ninclude 'defs.gin'\nimport vfx.alpha.mod as am\nam.fn.x = 2\n", None),     # own import after include: fine
]
NE = len(ERRORS)


def c19_errors(case: int) -> bool:
  """
  pre: 0 <= case < 11
  """
  world.fresh()
  cleanup_vfx()
  case = rt.pick(case, NE)
  rt.sig(('errors', case), nontrivial=True)
  try:
    with rt.native():
      text, want = ERRORS[case]
      world.use_mem_fs({'child.gin': DR + '\nam.fn.x = 1\n',
                        'defs.gin': DR + '\nimport vfx.alpha.mod as am\nam.fn.y = 5\n'})
      exc = None
      try:
        gin.parse_config(text)
      except Exception as e:
        exc = e
      if want is None:
        return exc is None or rt.no('control case raised %r' % (exc,))
      return isinstance(exc, want) or rt.no('case %d: expected %s, got %r' % (case, want.__name__, exc))
  finally:
    cleanup_vfx()


def c19_method_after(f1: int, f2: int, same_file: bool, v: int) -> bool:
  """
  pre: 0 <= f1 < 5 and 0 <= f2 < 5
  """
  world.fresh()
  cleanup_vfx()
  f1, f2 = rt.pick(f1, NFORM), rt.pick(f2, NFORM)
  same_file = rt.flag(same_file)
  rt.sig(('method_after', f1, f2, same_file), nontrivial=True)
  gin.constant('vwc.V', v)
  try:
    with rt.native():
      imp1, b1 = FORMS[f1]('alpha')
      imp2, b2 = FORMS[f2]('alpha')
      first = [DR, imp1, '%s.Cls.x = 41' % b1, '%s.consumer.p = @%s.Cls()' % (b1, b1),
               '%s.consumer.q = [@%s.Cls]' % (b1, b1)]
      if same_file:
        gin.parse_config('\n'.join(first + ['%s.Cls.meth.m = %%vwc.V' % b1]) + '\n')
      else:
        gin.parse_config('\n'.join(first) + '\n')
        gin.parse_config('\n'.join([DR, imp2, '%s.Cls.meth.m = %%vwc.V' % b2]) + '\n')
    # configuring a method of an already referenced class keeps existing references working
    gin.get_configurable(A.consumer)()
    p, q = A.CALLS[-1][1], A.CALLS[-1][2]
    with rt.native():
      if not isinstance(p, A.Cls) or not (isinstance(q, list) and issubclass(q[0], A.Cls)):
        return rt.no('reference to the class broken: %r %r' % (p, q))
      if p.x != 41 or q[0]().x != 41:
        return rt.no('bindings of the class lost when one of its methods was configured')
    del A.CALLS[:]
    p.meth()
    if not rt.same('method configured through the existing reference', A.CALLS[-1][1], v):
      return False
    del A.CALLS[:]
    q[0]().meth()
    return rt.same('method configured through the unevaluated reference', A.CALLS[-1][1], v)
  finally:
    cleanup_vfx()


# (statements of one file, [(python object getter, parameter, value)])
COLLIDE_FILES = [
    ('import vfx.alpha.mod\nvfx.alpha.mod.fn.x = 11\n', 'alpha.fn'),            # plain dotted import: binds `vfx`
    ('from vfy import vfx\nvfx.hfn.x = 22\n', 'vfy.hfn'),                        # from-import: binds `vfx` too
    ('import vfy.vfx as mod\nmod.hfn.x = 22\n', 'vfy.hfn'),                      # alias `mod`
    ('from vfx.alpha import mod\nmod.fn.x = 11\n', 'alpha.fn'),                  # from-import: binds `mod` too
    ('import vfx.beta.mod\nvfx.beta.mod.fn.x = 33\n', 'beta.fn'),               # second plain import of package vfx
    ('import vfx.alpha.mod as vfy\nvfy.Cls.x = 44\n', 'alpha.Cls'),              # alias equal to another package name
    ('import vfy.vfx\nvfy.vfx.hfn.x = 22\n', 'vfy.hfn'),                        # plain import of package vfy
    ('from vfx.beta import mod\nmod.fn.x = 33\n', 'beta.fn'),                    # a second module bound as `mod`
    ('from vfx.delta import mod\nmod.fn.x = 55\n', 'delta.fn'),                  # ... and a third one
    # two plain imports of the same depth with the same leaf name in ONE file
    ('import vfx.alpha.mod\nimport vfx.beta.mod\nvfx.alpha.mod.fn.x = 11\nvfx.beta.mod.fn.x = 33\n', 'alpha.fn+beta.fn'),
]
NCF = len(COLLIDE_FILES)


def c19_collide(f1: int, f2: int, f3: int, n: int) -> bool:
  """
  pre: 0 <= f1 < 10 and 0 <= f2 < 10 and 0 <= f3 < 10 and 1 <= n <= 3
  """
  import vfy.vfx as H
  import vfx.delta.mod as D
  world.fresh()
  cleanup_vfx()
  fs = [rt.pick(f, NCF) for f in (f1, f2, f3)[:n]]
  rt.sig(('collide', tuple(fs)), nontrivial=len(set(fs)) >= 2)
  try:
    with rt.native():
      for f in fs:
        gin.parse_config(DR + '\n' + COLLIDE_FILES[f][0])

      def observe():
        out = {}
        for key, fn_, log in (('alpha.fn', A.fn, A.CALLS), ('beta.fn', B.fn, B.CALLS),
                              ('vfy.hfn', H.hfn, H.CALLS), ('alpha.Cls', A.Cls, A.CALLS),
                              ('delta.fn', D.fn, D.CALLS)):
          del log[:]
          try:
            gin.get_configurable(fn_)()
            out[key] = log[-1][1]
          except Exception as e:
            out[key] = 'unregistered'
        return out

      before = observe()
      want = {'alpha.fn': 0, 'beta.fn': 0, 'vfy.hfn': 0, 'alpha.Cls': 0, 'delta.fn': 0}
      for f in fs:
        if '+' in COLLIDE_FILES[f][1]:
          want['alpha.fn'], want['beta.fn'] = 11, 33
        else:
          want[COLLIDE_FILES[f][1]] = int(COLLIDE_FILES[f][0].rsplit('= ', 1)[1])
      for k, v in want.items():
        if before[k] != 'unregistered' and before[k] != v:
          return rt.no('before serialisation %s received %r, expected %r' % (k, before[k], v))
      text = gin.config_str()
      # the bound names of the emitted imports must be unique
      gc._CONFIG.clear(); gc._CONFIG_PROVENANCE.clear(); gc._IMPORTS.clear()
      try:
        gin.parse_config(text)
      except Exception as e:
        return rt.no('config string does not re-parse: %r\n%s' % (e, text))
      after = observe()
      for k in want:
        if before[k] != 'unregistered' and after[k] != before[k]:
          return rt.no('after re-parsing the config string %s receives %r instead of %r\n%s' %
                       (k, after[k], before[k], text))
      return gin.config_str() == text or rt.no('config string not stable\n%s' % text)
  finally:
    cleanup_vfx()
    for sel in list(gc._REGISTRY._selector_map):
      if (getattr(gc._REGISTRY[sel].wrapped, '__module__', '') or '').startswith(('vfy',)):
        gc._REGISTRY.pop(sel)
    for obj in list(gc._INVERSE_REGISTRY):
      if (getattr(obj, '__module__', '') or '').startswith('vfy'):
        del gc._INVERSE_REGISTRY[obj]


HARNESSES = {
    'c19_collide': dict(
        fn='c19_collide',
        anchors=['gin.config:add_import', 'gin.config:_config_str', 'gin.config:minimal_selector'],
        smoke=[dict(f1=0, f2=1, f3=3, n=3), dict(f1=1, f2=0, f3=0, n=2)],
        tiers={'quick': dict(split=dict(f1=list(range(NCF))), fixed=dict(n=3), budget_s=100),
               'thorough': dict(split=dict(f1=list(range(NCF)), f2=list(range(NCF))), fixed=dict(n=3),
                                budget_s=300)},
        bounds='3 files in every order from 10 whose imports bind colliding names (incl. three modules bound as `mod` and two plain imports of the same depth and leaf in one file; (plain dotted '
               'import of package vfx x2, from-import / alias / plain import of vfy.vfx, alias equal to another package '
               'name, from-import binding `mod` twice); the emitted config string must re-parse and configure the same '
               'Python objects'),
    'c19_spellings': dict(
        fn='c19_spellings',
        anchors=['gin.config:process_import', 'gin.config:_resolve_selector', 'gin.config:_register',
                 'gin.config:get_configurable', 'gin.config:add_import'],
        smoke=[dict(target=0, f1=0, f2=1, structure=0, ref_first=False, v1=1, v2=2),
               dict(target=2, f1=4, f2=4, structure=1, ref_first=True, v1=1, v2=2),
               dict(target=3, f1=1, f2=1, structure=2, ref_first=True, v1=1, v2=2)],
        tiers={'quick': dict(split=dict(target=[0, 1, 2, 3], f1=list(range(NFORM))), budget_s=100),
               'thorough': dict(split=dict(target=[0, 1, 2, 3], f1=list(range(NFORM)), f2=list(range(NFORM))),
                                budget_s=300)},
        bounds='4 target objects of a fixture package (function, class, nested class, method) x 5 import forms in each '
               'of two files (incl. a bound name that collides across files and with the sibling package) x 3 structures '
               '(separate parses, file 2 included by file 1, file 1 included by file 2) x reference before binding or '
               'not; bound values: all ints (through constants)'),
    'c19_errors': dict(
        fn='c19_errors', anchors=['gin.config:process_import', 'gin.config:_resolve_selector'],
        smoke=[dict(case=0), dict(case=6)],
        tiers={'quick': dict(split={}, budget_s=60), 'thorough': dict(split={}, budget_s=60)},
        bounds='9 error cases (name not imported, missing attribute, reserved name gin, late / aliased enabling, unknown '
               '__gin__ feature, parent\'s import used by an included file and the reverse, reference to a not imported '
               'name) + 2 control cases'),
    'c19_method_after': dict(
        fn='c19_method_after', anchors=['gin.config:_register', 'gin.config:initialize'],
        smoke=[dict(f1=1, f2=1, same_file=True, v=3), dict(f1=1, f2=3, same_file=False, v=3)],
        tiers={'quick': dict(split=dict(f1=list(range(NFORM))), budget_s=100),
               'thorough': dict(split=dict(f1=list(range(NFORM)), f2=list(range(NFORM))), budget_s=300)},
        bounds='a class referenced (evaluated and unevaluated) and later one of its methods configured, from the same '
               'file or from another file with any of 5 x 5 import forms; bound value: all ints'),
}
ASSUMPTIONS = ['fixture package /verif/fixtures/vfx; the import system and attribute lookup are CPython C code executed natively',
               'registry entries of fixture objects are removed between paths through the private registries']
