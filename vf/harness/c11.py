"""C11 - only configurable parameters of registered configurables can ever be bound."""
import gin
from gin import config as gc
from vf import rt
from vf import world

CASES = [
    ('vw.dflt', 'a', True), ('vw.dflt', 'zzz', False), ('vw.kws', 'anything', True),
    ('vw.allow_a', 'a', True), ('vw.allow_a', 'b', False), ('vw.deny_b', 'b', False),
    ('vw.deny_b', 'a', True), ('vw.nosuch', 'a', False), ('vw.Kmeth.meth', 'a', True),
    ('meth', 'a', False), ('vw.Kinit', 'b', True), ('vw.Kinit', 'nope', False),
    ('Kmeth.meth', 'b', True), ('vw.plain', 'b', True), ('vw.kwo', 'c', False),
    # a function behind a signature-agnostic functools.wraps decorator: its OWN signature counts
    ('vw.wrapped', 'a', True), ('vw.wrapped', 'bogus', False), ('vw.wrapped_deny', 'b', False),
    ('vw.wrapped_deny', 'zzz', False),
    # registered methods of a registered class carrying their own deny / allow lists
    ('vw.KmethD.dmeth', 'b', False), ('vw.KmethD.dmeth', 'a', True), ('vw.KmethD.ameth', 'b', False),
    ('vw.KmethD.ameth', 'a', True),
    # two functools.wraps layers
    ('vw.wrapped2', 'bogus', False), ('vw.wrapped2', 'b', True),
]
NCASE = len(CASES)
PATHS = ['string key', 'tuple key', 'scoped string key', 'parse_config flat', 'block member',
         'finalize hook', 'scoped block member', 'finalize hook returning a valid binding first',
         'two finalize hooks, the valid one first']
PRE = [('', 'vw.dflt', 'a'), ('s', 'vw.dflt', 'b'), ('', 'vw.allow_a', 'a'),
       ('', 'vw.Kmeth.meth', 'b')]


def cfg_copy():
  out = {}
  for k, d in gc._CONFIG.items():
    out[k] = dict(d)
  return out


def c11_step(case: int, path: int, p0: bool, p1: bool, p2: bool, p3: bool,
             v0: int, v1: int, v2: int, v3: int, nv: int) -> bool:
  """
  pre: 0 <= case < 25 and 0 <= path < 9
  """
  world.fresh()
  case = rt.pick(case, NCASE)
  path = rt.pick(path, 9)
  sel, param, ok_expected = CASES[case]
  pres = [rt.flag(p0), rt.flag(p1), rt.flag(p2), rt.flag(p3)]
  vals = [v0, v1, v2, v3]
  for i in range(4):
    if pres[i]:
      gin.bind_parameter(PRE[i], vals[i])
  gin.constant('vwc.NV', nv)
  scope = 's' if path in (2, 6) else ''
  rt.sig(('step', case, path, tuple(pres)), nontrivial=not ok_expected or any(pres))
  before = cfg_copy()
  exc = None
  try:
    if path == 0:
      gin.bind_parameter(sel + '.' + param, nv)
    elif path == 1:
      gin.bind_parameter(('', sel, param), nv)
    elif path == 2:
      gin.bind_parameter('s/' + sel + '.' + param, nv)
    elif path == 3:
      with rt.native():
        text = 'vw.src.v = 1\n%s.%s = %%vwc.NV\nvw.src2.v = 2\n' % (sel, param)
      gin.parse_config(text)
    elif path in (4, 6):
      with rt.native():
        text = 'vw.src.v = 1\n%s%s:\n  %s = %%vwc.NV\nvw.src2.v = 2\n' % (
            's/' if scope else '', sel, param)
      gin.parse_config(text)
    elif path == 5:
      gin.config.register_finalize_hook(lambda config: {sel + '.' + param: nv})
      gin.finalize()
    elif path == 7:
      gin.config.register_finalize_hook(
          lambda config: {'vw.src2.v': 2, ('s', sel, param): nv} if False else
          {'vw.src2.v': 2, sel + '.' + param: nv})
      gin.finalize()
    else:
      gin.config.register_finalize_hook(lambda config: {'vw.src2.v': 2})
      gin.config.register_finalize_hook(lambda config: {sel + '.' + param: nv})
      gin.finalize()
  except Exception as e:
    exc = e
  after = cfg_copy()
  if not ok_expected:
    if not isinstance(exc, ValueError):
      return False
    want = dict(before)
    if path in (3, 4, 6):
      want[('', 'vw.src')] = {'v': 1}    # the statement before the rejected one took effect
    if after != want or gin.config_is_locked():
      return False
    # a rejected name is never injected by a later call
    del world.LOG[:]
    if case == 4:
      world.allow_a()
      return world.LOG[0][1][1] == world.DB
    if case == 5:
      world.deny_b()
      return world.LOG[0][1][1] == world.DB
    if case == 1:
      world.dflt()
      return world.LOG[0][2] == {}
    return True
  if exc is not None:
    return False
  full = {'Kmeth.meth': 'vw.Kmeth.meth'}.get(sel, sel)

  want = {}
  for k, d in before.items():
    want[k] = dict(d)
  if path in (3, 4, 6):
    want[('', 'vw.src')] = {'v': 1}
    want[('', 'vw.src2')] = {'v': 2}
  if path in (7, 8):
    want[('', 'vw.src2')] = {'v': 2}
  want.setdefault((scope, full), {})
  if path in (3, 4, 6):
    # through text the value is the constant reference; compare by evaluation below
    if set(after) != set(want) or set(after[(scope, full)]) != set(want[(scope, full)]) | {param}:
      return False
    for k in want:
      for pn, pv in want[k].items():
        if pn != param or k != (scope, full):
          if not rt.same('keep', after[k][pn], pv):
            return False
    got = gin.get_bindings((scope + '/' if scope else '') + full)
    return rt.same('bound', got[param], nv)
  want[(scope, full)][param] = nv
  if after != want:
    return False
  return gin.config_is_locked() == (path in (5, 7, 8))


HARNESSES = {
    'c11_step': dict(
        fn='c11_step',
        anchors=['gin.config:parse', 'gin.config:_might_have_parameter', 'gin.config:bind_parameter',
                 'gin.config:finalize', 'gin.config:parse_config'],
        smoke=[dict(case=4, path=4, p0=True, p1=True, p2=False, p3=True, v0=1, v1=2, v2=3, v3=4, nv=9),
               dict(case=8, path=5, p0=True, p1=False, p2=True, p3=False, v0=1, v1=2, v2=3, v3=4, nv=9),
               dict(case=9, path=3, p0=False, p1=False, p2=False, p3=False, v0=1, v1=2, v2=3, v3=4, nv=9)],
        tiers={'quick': dict(split=dict(case=list(range(25)), path=list(range(9))),
                             fixed=dict(p2=False, p3=False), budget_s=100),
               'thorough': dict(split=dict(case=list(range(25)), path=list(range(9))), budget_s=300)},
        bounds='inductive step: arbitrary subset of 4 existing bindings (2 in quick) with symbolic values, then '
               'one attempted binding: 25 (configurable, parameter) cases (valid, unknown parameter, **kwargs '
               'catch-all, allow-listed / not, deny-listed / not, unknown configurable, method through class, '
               'bare method name, class, function behind a functools.wraps decorator with and without a denylist) x 9 API paths (string key, tuple key, scoped key, parse_config flat, '
               'block member, scoped block member, finalize hook alone / after a valid entry of the same hook / after a valid hook); values: all ints'),
}
