"""C11 - only configurable parameters of registered configurables can ever be bound."""
import dataclasses as _dataclasses
import functools as _functools
import os as _os
import sys as _sys

import gin
from gin import config as gc
from vf import rt
from vf import world

DA, DB = world.DA, world.DB


# ---- extra probe configurables (module path `vw11`), registered once per process ---------------------
def _define_probes():
  if 'vw11.akw' in gc._REGISTRY:       # idempotent (the module may be imported under two names)
    return
  rec = world.rec

  # **kwargs configurables WITH a list: the catch-all does not override the lists
  @gin.configurable(module='vw11', allowlist=['x'])
  def akw(a=DA, **kw):
    rec('akw', a, **kw)
    return (a, kw)

  @gin.configurable(module='vw11', denylist=['z'])
  def dkw(a=DA, **kw):
    rec('dkw', a, **kw)
    return (a, kw)

  # degenerate (empty) and tuple-valued lists
  @gin.configurable(module='vw11', allowlist=[])
  def a_empty(a=DA, b=DB):
    rec('a_empty', a, b)
    return (a, b)

  @gin.configurable(module='vw11', denylist=())
  def d_empty(a=DA, b=DB):
    rec('d_empty', a, b)
    return (a, b)

  @gin.configurable(module='vw11', allowlist=('a',))
  def a_tup(a=DA, b=DB):
    rec('a_tup', a, b)
    return (a, b)

  @gin.configurable(module='vw11', denylist=('b',))
  def d_tup(a=DA, b=DB):
    rec('d_tup', a, b)
    return (a, b)

  # classes without a construction function of their own / with unusual ones
  @gin.configurable(module='vw11')
  class Bare:
    pass

  @gin.register(module='vw11')
  class BareR:
    pass

  class _Base:

    def __init__(self, a=DA):
      rec('Sub', a)

  @gin.configurable(module='vw11')
  class Sub(_Base):
    pass

  @gin.configurable(module='vw11')
  class OnlyNew:

    def __new__(cls, a=DA):
      rec('OnlyNew', a)
      return object.__new__(cls)

  @gin.configurable(module='vw11')
  @_dataclasses.dataclass
  class DC:
    a: int = DA

  # positional-only first parameter
  @gin.configurable(module='vw11')
  def po(a=DA, /, b=DB):
    rec('po', a, b)
    return (a, b)

  # callable shapes through external_configurable
  def _f(a=DA, b=DB):
    rec('f', a, b)
    return (a, b)

  gin.external_configurable(_functools.partial(_f, a=1), 'pk', module='vw11')   # keyword pre-bound
  gin.external_configurable(_functools.partial(_f, 1), 'pp', module='vw11')     # positionally pre-bound: `a` is gone

  def _g(a=DA, b=DB):
    rec('g', a, b)
    return (a, b)

  @_functools.wraps(_g)
  def _narrow(a=DA):          # a functools.wraps wrapper whose OWN signature is narrower than the wrapped one
    return _g(a, 5)

  gin.external_configurable(_narrow, 'narrow', module='vw11')

  class _Inst:

    def __call__(self, a=DA):
      rec('inst', a)
      return a

  gin.external_configurable(_Inst(), 'inst', module='vw11')

  # two registered classes each with a registered method of the same name: the bare method name is ambiguous
  @gin.register(module='vw11')
  class M1:

    def __init__(self):
      pass

    @gin.register
    def twin(self, a=DA, b=DB):
      rec('M1.twin', a, b)
      return (a, b)

  @gin.register(module='vw11')
  class M2:

    def __init__(self):
      pass

    @gin.register
    def twin(self, a=DA, b=DB):
      rec('M2.twin', a, b)
      return (a, b)


_define_probes()


def _w(sel):
  return gc._REGISTRY[sel].wrapper


# expectation: True = must be accepted; False = must raise ValueError; None = the statement does not decide
# (either outcome, but a rejection must still leave everything as it was); 'any' = must be rejected, the
# exception type is not fixed (an ambiguous bare method name is a KeyError before it is a ValueError)
CASES = [
    ('vw.dflt', 'a', True), ('vw.dflt', 'zzz', False), ('vw.kws', 'anything', True),
    ('vw.allow_a', 'a', True), ('vw.allow_a', 'b', False), ('vw.deny_b', 'b', False),
    ('vw.deny_b', 'a', True), ('vw.nosuch', 'a', False), ('vw.Kmeth.meth', 'a', True),
    ('meth', 'a', False), ('vw.Kinit', 'b', True), ('vw.Kinit', 'nope', False),
    ('Kmeth.meth', 'b', True), ('vw.plain', 'b', True), ('vw.kwo', 'c', False),
    # a function behind a signature-agnostic functools.wraps decorator: its OWN signature counts
    ('vw.wrapped', 'a', True), ('vw.wrapped', 'bogus', False), ('vw.wrapped_deny', 'b', False),
    ('vw.wrapped_deny', 'zzz', False),
    # registered methods of a registered class carrying their own deny / allow lists
    ('vw.KmethD.dmeth', 'b', False), ('vw.KmethD.dmeth', 'a', True), ('vw.KmethD.ameth', 'b', False),
    ('vw.KmethD.ameth', 'a', True),
    # two functools.wraps layers
    ('vw.wrapped2', 'bogus', False), ('vw.wrapped2', 'b', True),
    # 25.. VALID keyword-only parameters (second disjunct of the signature test) and their lists; the name of
    # *varargs is not a parameter; the name of **kw itself is just another keyword
    ('vw.kwo', 'a', True), ('vw.varkwo', 'b', True), ('vw.allow_kwo', 'k', False), ('vw.allow_kwo', 'a', True),
    ('vw.deny_kwo', 'k', False), ('vw.deny_kwo', 'a', True), ('vw.var', 'rest', False), ('vw.kws', 'kw', True),
    ('vw.varkwo', 'rest', False),
    # 34.. **kwargs configurable with an allowlist / a denylist
    ('vw11.akw', 'x', True), ('vw11.akw', 'y', False), ('vw11.akw', 'a', False),
    ('vw11.dkw', 'z', False), ('vw11.dkw', 'q', True), ('vw11.dkw', 'a', True),
    # 40.. degenerate lists: an EMPTY allowlist may mean "no list" or "nothing allowed" (not decided); an empty
    # denylist denies nothing under either reading; tuple-valued lists are lists
    ('vw11.a_empty', 'a', None), ('vw11.a_empty', 'zzz', False), ('vw11.d_empty', 'b', True),
    ('vw11.d_empty', 'zzz', False), ('vw11.a_tup', 'a', True), ('vw11.a_tup', 'b', False),
    ('vw11.d_tup', 'b', False), ('vw11.d_tup', 'a', True),
    # 48.. classes: no __init__/__new__ of their own (the constructor accepts NO keyword), inherited __init__,
    # only __new__, dataclass
    ('vw11.Bare', 'zzz', False), ('vw11.BareR', 'zzz', False), ('vw11.Sub', 'a', True), ('vw11.Sub', 'zzz', False),
    ('vw11.OnlyNew', 'a', True), ('vw11.OnlyNew', 'zzz', False), ('vw11.DC', 'a', True), ('vw11.DC', 'zzz', False),
    # 56.. callables through external_configurable: functools.partial (keyword / positionally pre-bound), a
    # functools.wraps wrapper with a narrower own signature (`b` is in the wrapped signature only: not decided),
    # a callable instance
    ('vw11.pk', 'b', True), ('vw11.pk', 'zzz', False), ('vw11.pp', 'a', False), ('vw11.pp', 'b', True),
    ('vw11.narrow', 'a', True), ('vw11.narrow', 'zzz', False), ('vw11.narrow', 'b', None),
    ('vw11.inst', 'a', True), ('vw11.inst', 'zzz', False),
    # 65.. a bare method name that two registered classes share; the same method through either class
    ('twin', 'a', 'any'), ('M1.twin', 'a', True), ('vw11.M2.twin', 'b', True), ('M2.twin', 'zzz', False),
    # 69.. positional-only parameter: the signature lists `a` but cannot take it by keyword (not decided)
    ('vw11.po', 'b', True), ('vw11.po', 'zzz', False), ('vw11.po', 'a', None),
]
NCASE = len(CASES)
assert NCASE == 72, NCASE     # the pre: line of c11_step and the tier splits spell this number
FULL = {'Kmeth.meth': 'vw.Kmeth.meth', 'M1.twin': 'vw11.M1.twin', 'M2.twin': 'vw11.M2.twin'}
PATHS = ['string key', 'tuple key', 'scoped string key', 'parse_config flat', 'block member',
         'finalize hook', 'scoped block member', 'finalize hook returning a valid binding first',
         'two finalize hooks, the valid one first',
         # 9..
         'parse_config flat, skip_unknown=True', 'parse_config flat, skip_unknown=[the selector itself, vw.nosuch]',
         'block member, skip_unknown=True', 'parse_config of a list of strings',
         'parse_config_file, the binding inside an included file',
         'parse_config_files_and_bindings([], [...]) with finalize_config=True',
         # 15..
         'finalize hook, scoped tuple key', 'finalize hook, scoped string key',
         'finalize hook returning a ParsedBindingKey', 'two finalize hooks, the attempted one first',
         'bind_parameter under unlock_config() after finalize()']
NPATH = len(PATHS)
TEXT_PATHS = (3, 4, 6, 9, 10, 11, 12, 13, 14)     # the statement before the attempted one takes effect
SKIP_PATHS = (9, 10, 11)
LOCKING = (5, 7, 8, 14, 15, 16, 17, 18, 19)        # an accepted attempt ends with the config locked
SCOPED = (2, 6, 15, 16)
PRE = [('', 'vw.dflt', 'a'), ('s', 'vw.dflt', 'b'), ('', 'vw.allow_a', 'a'),
       ('', 'vw.Kmeth.meth', 'b')]


def _never_injected(case):
  """After a rejection the probe must still receive its signature defaults."""
  del world.LOG[:]
  if case == 4:
    world.allow_a()
    return world.LOG[0][1][1] == DB
  if case == 5:
    world.deny_b()
    return world.LOG[0][1][1] == DB
  if case == 1:
    world.dflt()
    return world.LOG[0][2] == {}
  if case == 27:
    world.allow_kwo()
    return world.LOG[0][2] == {'k': 5}
  if case == 29:
    world.deny_kwo()
    return world.LOG[0][2] == {'k': 5}
  if case in (31, 33):
    if case == 31:
      world.var(1)
      return world.LOG[0][1] == (1, DB) and world.LOG[0][2] == {}
    world.varkwo(1)
    return world.LOG[0][1] == (1,) and world.LOG[0][2] == {'b': DB}
  if case in (35, 36):
    _w('vw11.akw')()
    return world.LOG[0][1] == (DA,) and world.LOG[0][2] == {}
  if case == 37:
    _w('vw11.dkw')()
    return world.LOG[0][1] == (DA,) and world.LOG[0][2] == {}
  if case in (45, 46):
    _w('vw11.a_tup' if case == 45 else 'vw11.d_tup')()
    return world.LOG[0][1] == (DA, DB)
  if case == 58:
    _w('vw11.pp')()
    return world.LOG[0][1] == (1, DB)
  return True


def cfg_copy():
  out = {}
  for k, d in gc._CONFIG.items():
    out[k] = dict(d)
  return out


def c11_step(case: int, path: int, p0: bool, p1: bool, p2: bool, p3: bool,
             v0: int, v1: int, v2: int, v3: int, nv: int) -> bool:
  """
  pre: 0 <= case < 72 and 0 <= path < 20
  """
  world.fresh()
  case = rt.pick(case, NCASE)
  path = rt.pick(path, NPATH)
  sel, param, expect = CASES[case]
  pres = [rt.flag(p0), rt.flag(p1), rt.flag(p2), rt.flag(p3)]
  vals = [v0, v1, v2, v3]
  for i in range(4):
    if pres[i]:
      gin.bind_parameter(PRE[i], vals[i])
  gin.constant('vwc.NV', nv)
  scope = 's' if path in SCOPED else ''
  rt.sig(('step', case, path, tuple(pres)), nontrivial=expect is not True or any(pres))
  with rt.native():
    line = '%s.%s = %%vwc.NV' % (sel, param)
    block = '%s%s:\n  %s = %%vwc.NV' % ('s/' if path == 6 else '', sel, param)
    if path == 13:
      world.use_mem_fs({'main.gin': "vw.src.v = 1\ninclude 'inc.gin'\nvw.src2.v = 2\n",
                        'inc.gin': line + '\n'})
  if path == 19:
    gin.finalize()                         # no hooks: locks, changes nothing
    if not gin.config_is_locked():
      return rt.no('finalize() did not lock')
  before = cfg_copy()
  exc = None
  try:
    if path == 0:
      gin.bind_parameter(sel + '.' + param, nv)
    elif path == 1:
      gin.bind_parameter(('', sel, param), nv)
    elif path == 2:
      gin.bind_parameter('s/' + sel + '.' + param, nv)
    elif path == 3:
      gin.parse_config('vw.src.v = 1\n' + line + '\nvw.src2.v = 2\n')
    elif path in (4, 6):
      gin.parse_config('vw.src.v = 1\n' + block + '\nvw.src2.v = 2\n')
    elif path == 5:
      gin.config.register_finalize_hook(lambda config: {sel + '.' + param: nv})
      gin.finalize()
    elif path == 7:
      gin.config.register_finalize_hook(
          lambda config: {'vw.src2.v': 2, ('s', sel, param): nv} if False else
          {'vw.src2.v': 2, sel + '.' + param: nv})
      gin.finalize()
    elif path == 8:
      gin.config.register_finalize_hook(lambda config: {'vw.src2.v': 2})
      gin.config.register_finalize_hook(lambda config: {sel + '.' + param: nv})
      gin.finalize()
    elif path == 9:
      gin.parse_config('vw.src.v = 1\n' + line + '\nvw.src2.v = 2\n', skip_unknown=True)
    elif path == 10:
      # a skip list never covers a KNOWN configurable, even when it names it
      gin.parse_config('vw.src.v = 1\n' + line + '\nvw.src2.v = 2\n', skip_unknown=[sel, 'vw.nosuch'])
    elif path == 11:
      gin.parse_config('vw.src.v = 1\n' + block + '\nvw.src2.v = 2\n', skip_unknown=True)
    elif path == 12:
      gin.parse_config(['vw.src.v = 1', line, 'vw.src2.v = 2'])
    elif path == 13:
      gin.parse_config_file('main.gin')
    elif path == 14:
      gin.parse_config_files_and_bindings([], ['vw.src.v = 1', line, 'vw.src2.v = 2'], finalize_config=True)
    elif path == 15:
      gin.config.register_finalize_hook(lambda config: {('s', sel, param): nv})
      gin.finalize()
    elif path == 16:
      gin.config.register_finalize_hook(lambda config: {'s/' + sel + '.' + param: nv})
      gin.finalize()
    elif path == 17:
      gin.config.register_finalize_hook(lambda config: {gc.ParsedBindingKey.parse(sel + '.' + param): nv})
      gin.finalize()
    elif path == 18:
      gin.config.register_finalize_hook(lambda config: {sel + '.' + param: nv})
      gin.config.register_finalize_hook(lambda config: {'vw.src2.v': 2})
      gin.finalize()
    else:
      with gin.unlock_config():
        gin.bind_parameter(('', sel, param), nv)
  except Exception as e:
    exc = e
  after = cfg_copy()
  if expect is None:
    expect = exc is None                    # not decided by the statement: judge whichever happened
    etypes = Exception
  elif expect == 'any':
    expect, etypes = False, Exception
  else:
    etypes = ValueError
  if not expect and sel == 'vw.nosuch' and path in SKIP_PATHS and exc is None:
    # an unknown configurable under skip_unknown: skipped silently (the statement's "raises" is waived by the
    # caller's explicit request) - but NOTHING may be stored for it, and the other statements apply
    want = dict(before)
    want[('', 'vw.src')] = {'v': 1}
    want[('', 'vw.src2')] = {'v': 2}
    if after != want or gin.config_is_locked():
      return rt.no('skipped unknown configurable left a trace')
    return True
  if not expect:
    if not isinstance(exc, etypes):
      return rt.no('rejected binding must raise')
    want = dict(before)
    if path in TEXT_PATHS:
      want[('', 'vw.src')] = {'v': 1}    # the statement before the rejected one took effect
    if after != want:
      return rt.no('configuration changed by a rejected binding')
    if gin.config_is_locked() != (path == 19):
      return rt.no('lock state after a rejected binding')
    # a rejected name is never injected by a later call
    return _never_injected(case)
  if exc is not None:
    return rt.no('valid binding rejected')
  full = FULL.get(sel, sel)

  want = {}
  for k, d in before.items():
    want[k] = dict(d)
  if path in TEXT_PATHS:
    want[('', 'vw.src')] = {'v': 1}
    want[('', 'vw.src2')] = {'v': 2}
  if path in (7, 8, 18):
    want[('', 'vw.src2')] = {'v': 2}
  want.setdefault((scope, full), {})
  if path in TEXT_PATHS:
    # through text the value is the constant reference; compare by evaluation below
    if set(after) != set(want) or set(after[(scope, full)]) != set(want[(scope, full)]) | {param}:
      return False
    for k in want:
      for pn, pv in want[k].items():
        if pn != param or k != (scope, full):
          if not rt.same('keep', after[k][pn], pv):
            return False
    got = gin.get_bindings((scope + '/' if scope else '') + full)
    if not rt.same('bound', got[param], nv):
      return False
    return gin.config_is_locked() == (path in LOCKING)
  want[(scope, full)][param] = nv
  if after != want:
    return False
  return gin.config_is_locked() == (path in LOCKING)


# ---- registration-time list validation -----------------------------------------------------------------
TMP = 'vw11.tmp'
SHAPES = ['function / configurable', 'class / configurable', 'function / external_configurable',
          'class / register', '**kwargs function / configurable']
LISTS = [
    # (allowlist, denylist, REQUIRED default for b, is a control that must register)
    (['nope'], None, False, False), (None, ['nope'], False, False), (['a'], ['b'], False, False),
    ({'a'}, None, False, False), ('a', None, False, False), (None, {'b'}, False, False),
    (None, ['b'], True, False), (['a'], None, True, False), (['a', 'nope'], None, False, False),
    (None, ('b', 'nope'), False, False),
    (['a'], None, False, True), (None, ('b',), False, True), (None, None, False, True),
]
RPARAMS = ['a', 'b', 'nope']


def _forget_tmp():
  with rt.native():
    for s_ in list(gc._REGISTRY._selector_map):
      if s_ == TMP or s_.startswith(TMP + '.'):
        obj = gc._REGISTRY[s_].wrapped
        gc._REGISTRY.pop(s_)
        gc._INVERSE_REGISTRY.pop(obj, None)
    for obj in [o for o, c in gc._INVERSE_REGISTRY.items() if c.selector == TMP]:
      gc._INVERSE_REGISTRY.pop(obj, None)


def _try_register(shape, al, dl, req):
  bdef = gin.REQUIRED if req else DB
  if shape in (0, 2):
    def target(a=DA, b=bdef):
      world.rec('tmp', a, b)
  elif shape == 4:
    def target(a=DA, b=bdef, **kw):
      world.rec('tmp', a, b, **kw)
  else:
    class target:

      def __init__(self, a=DA, b=bdef):
        world.rec('tmp', a, b)
  kw = {}
  if al is not None:
    kw['allowlist'] = al
  if dl is not None:
    kw['denylist'] = dl
  if shape in (0, 1, 4):
    gin.configurable('tmp', module='vw11', **kw)(target)
  elif shape == 2:
    gin.external_configurable(target, 'tmp', module='vw11', **kw)
  else:
    gin.register('tmp', module='vw11', **kw)(target)


def c11_register(shape: int, lk: int, param: int, path: int, pre: bool, nv: int) -> bool:
  """
  pre: 0 <= shape < 5 and 0 <= lk < 13 and 0 <= param < 3 and 0 <= path < 4
  """
  world.fresh()
  _forget_tmp()
  shape = rt.pick(shape, len(SHAPES))
  lk = rt.pick(lk, len(LISTS))
  param = RPARAMS[rt.pick(param, 3)]
  path = rt.pick(path, 4)
  al, dl, req, control = LISTS[lk]
  if rt.flag(pre):
    gin.bind_parameter('vw.dflt.a', 3)
  gin.constant('vwc.NV', nv)
  rt.sig(('register', shape, lk, param, path), nontrivial=True)
  try:
    with rt.native():
      names0 = set(gc._REGISTRY._selector_map)
      objs0 = len(gc._INVERSE_REGISTRY)
      rexc = None
      try:
        _try_register(shape, al, dl, req)
      except Exception as e:
        rexc = e
      if control and rexc is not None:
        return rt.no('a valid registration was refused: %r' % (rexc,))
      if rexc is not None:
        # a registration that raised registered nothing
        if set(gc._REGISTRY._selector_map) != names0 or len(gc._INVERSE_REGISTRY) != objs0:
          return rt.no('a refused registration left a registry entry')
        expect = False
      else:
        # (clean tree: only the controls and the **kwargs shape with unknown listed names get here)
        sig_ok = param in ('a', 'b') or shape == 4
        stringy = isinstance(al, str) or isinstance(dl, str)
        in_lists = (not al or param in al) and (not dl or param not in dl)
        if not sig_ok:
          expect = False
        elif stringy or (al is not None and not al):
          expect = None
        else:
          expect = in_lists
    before = cfg_copy()
    exc = None
    try:
      if path == 0:
        gin.bind_parameter(TMP + '.' + param, nv)
      elif path == 1:
        gin.bind_parameter(('s', 'tmp', param), nv)
      elif path == 2:
        gin.parse_config('vw.src.v = 1\n' + TMP + '.' + param + ' = %vwc.NV\nvw.src2.v = 2\n')
      else:
        gin.config.register_finalize_hook(lambda config: {'vw.src2.v': 2, 'vw11.tmp.' + param: nv})
        gin.finalize()
    except Exception as e:
      exc = e
    after = cfg_copy()
    if expect is None:
      expect = exc is None
    want = dict(before)
    if not expect:
      if not isinstance(exc, ValueError):
        return rt.no('binding to %s must be rejected' % ('an unregistered name' if rexc else 'a listed-out / unknown parameter'))
      if path == 2:
        want[('', 'vw.src')] = {'v': 1}
      return (after == want and not gin.config_is_locked()) or rt.no('configuration changed by a rejected binding')
    if exc is not None:
      return rt.no('valid binding rejected')
    if path == 2:
      want[('', 'vw.src')] = {'v': 1}
      want[('', 'vw.src2')] = {'v': 2}
      key = ('', TMP)
      if set(after) != set(want) | {key} or set(after[key]) != {param}:
        return rt.no('text binding stored under the wrong key')
      return rt.same('bound', gin.get_bindings(TMP)[param], nv)
    if path == 3:
      want[('', 'vw.src2')] = {'v': 2}
    want[('s' if path == 1 else '', TMP)] = {param: nv}
    return after == want or rt.no('accepted binding not stored as given')
  finally:
    _forget_tmp()


# ---- dynamic registration: the configurable is registered on the fly, WITHOUT lists, while its binding is parsed --
_sys.path.insert(0, _os.path.join(_os.path.dirname(_os.path.dirname(_os.path.dirname(
    _os.path.abspath(__file__)))), 'fixtures'))
import vf11x.mod as _DM     # decorated (with lists) at import, under the Gin module path vf11xdec
DR = 'from __gin__ import dynamic_registration\nimport vfx.alpha.mod as am\nimport vf11x.mod as dm\n'
DYN = [('fn', 'x', True), ('fn', 'zzz', False), ('Cls', 'x', True), ('Cls', 'zzz', False),
       ('Cls.meth', 'm', True), ('Cls.meth', 'zzz', False), ('Cls.meth', 'self', None),
       ('nosuch', 'a', 'any'), ('meth', 'm', 'any'), ('consumer', 'q', True), ('Outer.Inner', 'y', True),
       ('Outer.Inner', 'x', False),
       # 12.. configurables that were decorated WITH lists before, now addressed through the import: lists are kept
       ('dm.dfn', 'x', True), ('dm.dfn', 'y', False), ('dm.dfn', 'zzz', False),
       ('dm.ACls', 'x', True), ('dm.ACls', 'y', False)]
DM_SEL = {'dm.dfn': 'vf11xdec.dfn', 'dm.ACls': 'vf11xdec.ACls'}


def _cleanup_dyn():
  """Forgets everything dynamic registration registered from vfx.* (this process imports no decorated vfx module)."""
  with rt.native():
    for sel_ in list(gc._REGISTRY._selector_map):
      mod_ = getattr(gc._REGISTRY[sel_].wrapped, '__module__', '') or ''
      if mod_.startswith('vfx.'):
        gc._REGISTRY.pop(sel_)
    for obj in list(gc._INVERSE_REGISTRY):
      if (getattr(obj, '__module__', '') or '').startswith('vfx.'):
        del gc._INVERSE_REGISTRY[obj]
    for old_, new_ in list(gc._RENAMED_SELECTORS.items()):
      if new_.startswith('vfx.') or old_.startswith('vfx.'):
        del gc._RENAMED_SELECTORS[old_]


def c11_dynamic(kind: int, form: int, prereg: bool, pre: bool, v0: int, nv: int) -> bool:
  """
  pre: 0 <= kind < 17 and 0 <= form < 4
  """
  world.fresh()
  _cleanup_dyn()
  kind = rt.pick(kind, len(DYN))
  form = rt.pick(form, 4)          # flat / block / scoped flat / scoped block
  prereg = rt.flag(prereg)
  pre = rt.flag(pre)
  name, param, expect = DYN[kind]
  scope = 's' if form >= 2 else ''
  gin.constant('vwc.NV', nv)
  rt.sig(('dynamic', kind, form, prereg, pre), nontrivial=True)
  try:
    with rt.native():
      if prereg:
        # an earlier parse already registered everything: the binding then meets an existing registration
        gin.parse_config(DR + 'am.fn.y = 1\nam.Cls.x = 0\nam.Cls.meth.m = 0\nam.consumer.q = 0\nam.Outer.Inner.y = 0\n')
        gc._CONFIG.clear()
        gc._CONFIG_PROVENANCE.clear()
      pfx = 's/' if scope else ''
      dotted = name if name in DM_SEL else 'am.' + name
      if form in (0, 2):
        stmt = '%s%s.%s = %%vwc.NV' % (pfx, dotted, param)
      else:
        stmt = '%s%s:\n  %s = %%vwc.NV' % (pfx, dotted, param)
      text = DR + 'am.consumer.p = 1\n' + stmt + '\nam.fn.y = 2\n'
    if pre:
      gin.bind_parameter('vw.dflt.a', v0)
    before = cfg_copy()
    exc = None
    try:
      gin.parse_config(text)
    except Exception as e:
      exc = e
    after = cfg_copy()
    ckey = [k for k in after if k[0] == '' and k[1].endswith('.consumer')]
    etypes = ValueError
    if expect is None:
      expect, etypes = exc is None, Exception
    elif expect == 'any':
      expect, etypes = False, Exception
    if not expect:
      if not isinstance(exc, etypes):
        return rt.no('rejected binding must raise')
      if len(ckey) != 1 or after.pop(ckey[0]) != {'p': 1}:
        return rt.no('the statement before the rejected one is missing')
      return (after == before and not gin.config_is_locked()) or rt.no('configuration changed by a rejected binding')
    if exc is not None:
      return rt.no('valid binding rejected')
    tkey = [k for k in after if k[0] == scope and (k[1] == DM_SEL[name] if name in DM_SEL else
                                                   k[1].endswith('.am.' + name))]
    fkey = [k for k in after if k[0] == '' and k[1].endswith('.am.fn')]
    if len(ckey) != 1 or len(tkey) != 1 or len(fkey) != 1:
      return rt.no('unexpected configuration keys')
    want = {}
    for k, d in before.items():
      want[k] = dict(d)
    want.setdefault(ckey[0], {})['p'] = 1
    want.setdefault(fkey[0], {})['y'] = 2
    if param not in after[tkey[0]]:
      return rt.no('accepted binding not stored')
    got = gin.get_bindings((scope + '/' if scope else '') + tkey[0][1])[param]
    del after[tkey[0]][param]
    want.setdefault(tkey[0], {})
    if not rt.same('others', after, want):
      return False
    return rt.same('bound', got, nv)
  finally:
    _cleanup_dyn()


HARNESSES = {
    'c11_step': dict(
        fn='c11_step',
        anchors=['gin.config:parse', 'gin.config:_might_have_parameter', 'gin.config:bind_parameter',
                 'gin.config:finalize', 'gin.config:parse_config', 'gin.config:_should_skip',
                 'gin.config:parse_config_file', 'gin.config:parse_config_files_and_bindings',
                 'gin.config:unlock_config'],
        smoke=[dict(case=4, path=4, p0=True, p1=True, p2=False, p3=True, v0=1, v1=2, v2=3, v3=4, nv=9),
               dict(case=8, path=5, p0=True, p1=False, p2=True, p3=False, v0=1, v1=2, v2=3, v3=4, nv=9),
               dict(case=9, path=3, p0=False, p1=False, p2=False, p3=False, v0=1, v1=2, v2=3, v3=4, nv=9),
               # keyword-only parameters and their lists, *varargs / **kw names
               dict(case=25, path=9, p0=True, p1=False, p2=False, p3=False, v0=1, v1=2, v2=3, v3=4, nv=9),
               dict(case=27, path=10, p0=False, p1=True, p2=False, p3=False, v0=1, v1=2, v2=3, v3=4, nv=9),
               dict(case=29, path=11, p0=False, p1=False, p2=False, p3=False, v0=1, v1=2, v2=3, v3=4, nv=9),
               dict(case=31, path=12, p0=False, p1=False, p2=False, p3=False, v0=1, v1=2, v2=3, v3=4, nv=9),
               dict(case=32, path=13, p0=True, p1=True, p2=False, p3=False, v0=1, v1=2, v2=3, v3=4, nv=9),
               # unknown configurable under skip_unknown; included file; files_and_bindings
               dict(case=7, path=9, p0=True, p1=False, p2=False, p3=False, v0=1, v1=2, v2=3, v3=4, nv=9),
               dict(case=7, path=11, p0=False, p1=False, p2=False, p3=False, v0=1, v1=2, v2=3, v3=4, nv=9),
               dict(case=1, path=13, p0=True, p1=False, p2=False, p3=False, v0=1, v1=2, v2=3, v3=4, nv=9),
               dict(case=5, path=14, p0=False, p1=False, p2=False, p3=False, v0=1, v1=2, v2=3, v3=4, nv=9),
               dict(case=6, path=14, p0=False, p1=False, p2=False, p3=False, v0=1, v1=2, v2=3, v3=4, nv=9),
               # **kwargs with lists, degenerate / tuple lists
               dict(case=35, path=15, p0=False, p1=False, p2=False, p3=False, v0=1, v1=2, v2=3, v3=4, nv=9),
               dict(case=38, path=16, p0=False, p1=True, p2=False, p3=False, v0=1, v1=2, v2=3, v3=4, nv=9),
               dict(case=40, path=0, p0=False, p1=False, p2=False, p3=False, v0=1, v1=2, v2=3, v3=4, nv=9),
               dict(case=45, path=17, p0=False, p1=False, p2=False, p3=False, v0=1, v1=2, v2=3, v3=4, nv=9),
               # class shapes, callable shapes, ambiguous bare method, positional-only
               dict(case=51, path=18, p0=False, p1=False, p2=False, p3=False, v0=1, v1=2, v2=3, v3=4, nv=9),
               dict(case=53, path=19, p0=True, p1=False, p2=False, p3=False, v0=1, v1=2, v2=3, v3=4, nv=9),
               dict(case=54, path=19, p0=True, p1=False, p2=False, p3=False, v0=1, v1=2, v2=3, v3=4, nv=9),
               dict(case=58, path=1, p0=False, p1=False, p2=False, p3=False, v0=1, v1=2, v2=3, v3=4, nv=9),
               dict(case=62, path=3, p0=False, p1=False, p2=False, p3=False, v0=1, v1=2, v2=3, v3=4, nv=9),
               dict(case=63, path=2, p0=False, p1=False, p2=False, p3=False, v0=1, v1=2, v2=3, v3=4, nv=9),
               dict(case=65, path=4, p0=False, p1=False, p2=False, p3=False, v0=1, v1=2, v2=3, v3=4, nv=9),
               dict(case=66, path=6, p0=False, p1=False, p2=False, p3=False, v0=1, v1=2, v2=3, v3=4, nv=9),
               dict(case=71, path=0, p0=False, p1=False, p2=False, p3=False, v0=1, v1=2, v2=3, v3=4, nv=9),
               dict(case=48, path=0, p0=False, p1=False, p2=False, p3=False, v0=1, v1=2, v2=3, v3=4, nv=9)],
        tiers={'quick': dict(split=dict(case=list(range(72))),
                             fixed=dict(p2=False, p3=False), budget_s=150),
               'thorough': dict(split=dict(case=list(range(72)), p3=[False, True]), budget_s=300)},
        bounds='inductive step: arbitrary subset of 4 existing bindings (2 in quick) with symbolic values, then '
               'one attempted binding: 72 (configurable, parameter) cases x 20 API paths. Cases: valid, unknown parameter, '
               '**kwargs catch-all (also the name of **kw itself), allow-listed / not, deny-listed / not, unknown configurable, '
               'method through class, bare method name, bare method name shared by two classes, class, function behind one / two '
               'functools.wraps decorators with and without a denylist, methods with their own lists, VALID keyword-only '
               'parameters with and without *varargs and with allow / deny lists on them, the *varargs name, **kwargs '
               'configurables WITH an allowlist / a denylist, empty and tuple-valued lists, classes without an own '
               '__init__ (configurable and register), with an inherited __init__, with only __new__, a dataclass, '
               'functools.partial objects (keyword / positionally pre-bound), a functools.wraps wrapper with a narrower own '
               'signature, a callable instance, a positional-only parameter. Paths: string key, tuple key, scoped key, '
               'parse_config flat, block member, scoped block member, finalize hook alone / after a valid entry of the same '
               'hook / after a valid hook / before a valid hook, hook keys as scoped tuple, scoped string and '
               'ParsedBindingKey, parse_config with skip_unknown=True (flat and block) and with a skip list naming the '
               'selector itself, list-of-strings input, parse_config_file with the binding in an included file, '
               'parse_config_files_and_bindings with finalize_config=True, bind_parameter under unlock_config() after '
               'finalize(); values: all ints'),
    'c11_register': dict(
        fn='c11_register',
        anchors=['gin.config:_make_configurable', 'gin.config:_validate_parameters', 'gin.config:parse'],
        smoke=[dict(shape=0, lk=0, param=0, path=0, pre=True, nv=9),
               dict(shape=1, lk=2, param=1, path=1, pre=False, nv=9),
               dict(shape=2, lk=3, param=0, path=2, pre=False, nv=9),
               dict(shape=3, lk=6, param=1, path=3, pre=True, nv=9),
               dict(shape=4, lk=0, param=2, path=0, pre=False, nv=9),
               dict(shape=4, lk=8, param=1, path=2, pre=False, nv=9),
               dict(shape=1, lk=10, param=0, path=3, pre=False, nv=9),
               dict(shape=3, lk=11, param=1, path=2, pre=False, nv=9)],
        tiers={'quick': dict(split=dict(lk=list(range(13))), budget_s=100),
               'thorough': dict(split=dict(shape=list(range(5)), lk=list(range(13))), budget_s=300)},
        bounds='registration of a NEW configurable vw11.tmp: 5 shapes (function / class through configurable, function '
               'through external_configurable, class through register, **kwargs function) x 13 list arguments (unknown name '
               'in the allowlist / denylist alone or beside a valid one, both lists, set- and str-typed lists, a '
               'signature-REQUIRED parameter denylisted / not allowlisted, 3 valid controls), then one attempted binding '
               'of a / b / nope through 4 paths (string key, scoped tuple key with the short selector, config text, finalize '
               'hook after a valid entry), with and without an unrelated existing binding'),
    'c11_dynamic': dict(
        fn='c11_dynamic',
        anchors=['gin.config:_register', 'gin.config:_might_have_parameter', 'gin.config:parse_config'],
        smoke=[dict(kind=1, form=0, prereg=False, pre=True, v0=3, nv=9),
               dict(kind=0, form=1, prereg=False, pre=False, v0=3, nv=9),
               dict(kind=5, form=3, prereg=False, pre=False, v0=3, nv=9),
               dict(kind=4, form=2, prereg=True, pre=False, v0=3, nv=9),
               dict(kind=7, form=0, prereg=False, pre=True, v0=3, nv=9),
               dict(kind=11, form=1, prereg=True, pre=True, v0=3, nv=9),
               dict(kind=13, form=0, prereg=False, pre=False, v0=3, nv=9),
               dict(kind=15, form=3, prereg=False, pre=True, v0=3, nv=9),
               dict(kind=16, form=1, prereg=True, pre=False, v0=3, nv=9)],
        tiers={'quick': dict(split=dict(kind=list(range(17))), budget_s=100),
               'thorough': dict(split=dict(kind=list(range(17)), form=[0, 1, 2, 3]), budget_s=300)},
        bounds='dynamic registration against the fixture packages vfx.alpha.mod / vf11x.mod: 17 (target, parameter) kinds (function, '
               'class, method of a class, nested class: valid and unknown parameter; `self` of a method; missing '
               'attribute; bare method name; a function / class decorated earlier with a denylist / an allowlist: listed, '
               'unlisted, unknown) x 4 forms (flat, block, scoped flat, scoped block) x target already '
               'registered by an earlier parse or registered on the fly by this binding x an unrelated existing binding'),
}

OUTSIDE = ('Not judged (the statement does not decide): whether `self` / `cls` / a positional-only parameter / a parameter '
           'only the wrapped function of a narrower functools.wraps wrapper has / any name under an EMPTY allowlist is '
           'bindable (either outcome is accepted, a rejection must still leave everything unchanged); non-identifier '
           'parameter strings on **kwargs configurables; malformed key containers (2-/4-tuples, int keys); bare method '
           'names through paths that make no binding (@meth references, get_configurable, get_bindings); whether a '
           'registration with an unknown listed name / both lists / a wrongly typed list must itself raise (demanded '
           'only: a registration that raised registered nothing, one that went through obeys its lists); re-registration '
           'in interactive mode; registry contents after a rejected dynamic-registration binding.')
ASSUMPTIONS = ['c11_register removes its temporary configurable vw11.tmp from the private gin.config._REGISTRY / '
               '_INVERSE_REGISTRY before and after every path',
               'an unknown configurable under skip_unknown may be skipped silently (documented opt-in) but nothing may be '
               'stored for it']
