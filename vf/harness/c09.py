"""C09 - config scopes nest, are restored on every exit path (sequential half).

The thread half (scope stacks are private to a thread under every interleaving)
is Engine S: vf/sched (hooked in through ENGINES below).
"""
import gin
from vf import rt
from vf import world

KINDS = ["'a'", "'b/c'", "['x', 'y']", 'None', "''", "'1bad'", '42', "['ok', 'not ok']",
         "'a/'", '[]']
ENTRY = ['a', 'b/c', ['x', 'y'], None, '', '1bad', 42, ['ok', 'not ok'], 'a/', []]


class Boom(Exception):
  pass


def model_enter(cur, kind):
  """Reference: (valid?, new active scope) for entering ENTRY[kind] from `cur`."""
  e = ENTRY[kind]
  if kind in (0, 1):
    return True, cur + e.split('/')
  if kind in (2, 9):
    return True, list(e)
  if kind in (3, 4):
    return True, []
  return False, cur


def run_level(level, kinds, exits, depth, leaf, log):
  """Enters level `level`; returns False as soon as an observation disagrees."""
  before = gin.current_scope()
  if level == depth:
    if leaf == 1:      # a scoped configurable call replaces the scope inside, restores after
      gin.get_configurable('q/r/vw.dflt')()
      if world.LOG[-1][3] != ['q', 'r']:
        return False
    elif leaf == 2:    # an unscoped probe sees exactly the active scope
      world.dflt()
      if world.LOG[-1][3] != before:
        return False
    return gin.current_scope() == before
  # F-choices of a level are made lazily, only when the level is reached: the
  # body of an invalid entry never runs, so everything behind it is one path.
  kinds[level] = rt.pick(kinds[level], 10)
  exits[level] = rt.flag(exits[level])
  log.append((kinds[level], exits[level]))
  valid, inside = model_enter(before, kinds[level])
  ok = True
  raised = None
  try:
    with gin.config_scope(ENTRY[kinds[level]]) as s:
      if not valid:
        return False          # an invalid entry must not run the body
      if gin.current_scope() != inside or s != inside:
        return False
      if gin.current_scope_str() != '/'.join(inside):
        return False
      ok = run_level(level + 1, kinds, exits, depth, leaf, log)
      if gin.current_scope() != inside:
        return False
      if exits[level]:
        raise Boom()
  except Boom as e:
    raised = e
    if not exits[level]:
      return False
  except ValueError:
    if valid:
      return False
  if valid and exits[level] and raised is None and ok:
    return False
  if not ok:
    return False
  return gin.current_scope() == before


def c09_nest(depth: int, leaf: int, k0: int, k1: int, k2: int, k3: int,
             e0: bool, e1: bool, e2: bool, e3: bool) -> bool:
  """
  pre: 0 <= leaf < 3 and 0 <= k0 < 10 and 0 <= k1 < 10 and 0 <= k2 < 10 and 0 <= k3 < 10
  """
  world.fresh()
  leaf = rt.pick(leaf, 3)
  kinds = [k0, k1, k2, k3]
  exits = [e0, e1, e2, e3]
  log = []
  ok = run_level(0, kinds, exits, depth, leaf, log)
  rt.sig(('nest', depth, leaf, tuple(log)), nontrivial=len(log) >= 2)
  return ok and gin.current_scope() == [] and gin.current_scope_str() == ''


OUTER = ['', 'o', 'o/p', ['l', 'm'], None]
INNER = ['i', 'i/j', ['k'], None, '']


def c09_deferred(how: int, outer: int, inner: int) -> bool:
  """
  pre: 0 <= how < 4 and 0 <= outer < 5 and 0 <= inner < 5
  """
  world.fresh()
  how = rt.pick(how, 4)      # 0 inline, 1 context manager created BEFORE the outer scope is entered,
  outer = rt.pick(outer, 5)  # 2 decorator on a function defined before, 3 created inside another scope
  inner = rt.pick(inner, 5)
  rt.sig(('deferred', how, outer, inner), nontrivial=how != 0)
  with rt.native():
    o, i = OUTER[outer], INNER[inner]
    seen = []
    if how == 1:
      cm = gin.config_scope(i)
    elif how == 2:
      @gin.config_scope(i)
      def decorated():
        seen.append(gin.current_scope())
    elif how == 3:
      with gin.config_scope('elsewhere'):
        cm = gin.config_scope(i)

    def body():
      base = gin.current_scope()
      if how == 0:
        with gin.config_scope(i):
          seen.append(gin.current_scope())
      elif how == 2:
        decorated()
      else:
        with cm:
          seen.append(gin.current_scope())
      return base, gin.current_scope()

    if outer == 0:
      base, after = body()
    else:
      with gin.config_scope(o):
        base, after = body()
    # the scope is composed from what is active when the block is ENTERED
    if isinstance(i, list):
      want = list(i)
    elif i:
      want = base + i.split('/')
    else:
      want = []
    if seen != [want]:
      return rt.no('inside the block the scope is %r, expected %r (creation %d, outer %r, inner %r)' %
                   (seen, want, how, o, i))
    return (after == base and gin.current_scope() == []) or rt.no('scope not restored')


HARNESSES = {
    'c09_deferred': dict(
        fn='c09_deferred',
        anchors=['gin.config:config_scope'],
        smoke=[dict(how=1, outer=1, inner=0), dict(how=2, outer=2, inner=1)],
        tiers={'quick': dict(split=dict(how=[0, 1, 2, 3]), budget_s=60),
               'thorough': dict(split=dict(how=[0, 1, 2, 3]), budget_s=60)},
        bounds='config_scope used inline / as a context manager created before (or inside another scope than) the place '
               'where it is entered / as a decorator, x 5 outer scopes x 5 inner scope arguments'),
    'c09_nest': dict(
        fn='c09_nest',
        anchors=['gin.config:config_scope', 'gin.config:enter_scope', 'gin.config:exit_scope',
                 'gin.config:_decorate_with_scope'],
        smoke=[dict(depth=3, leaf=1, k0=0, k1=2, k2=1, k3=0, e0=True, e1=False, e2=False, e3=False),
               dict(depth=3, leaf=2, k0=1, k1=3, k2=0, k3=0, e0=False, e1=True, e2=True, e3=False)],
        tiers={'quick': dict(split=dict(k0=list(range(10)), leaf=[0, 1, 2]),
                             fixed=dict(depth=3, k3=0, e3=False), budget_s=100),
               'thorough': dict(split=dict(k0=list(range(10)), k1=list(range(10)), leaf=[0, 1, 2]),
                                fixed=dict(depth=4), budget_s=900)},
        bounds='nesting depth 3 (quick) / 4 (thorough); 10 entry kinds per level (name, a/b shorthand, list, '
               'None, empty string, empty list, 4 invalid: bad identifier, non-string, list with a bad member, '
               'trailing slash); each level left normally or by an exception; innermost action: none / scoped '
               'get_configurable call / unscoped probe'),
}


# ---------------------------------------------------------------------------------------------
# Engine S: the scope stack is private to a thread under every interleaving
# ---------------------------------------------------------------------------------------------
import json as _json
import os as _os
import subprocess as _subprocess
import sys as _sys

_ROOT = _os.path.dirname(_os.path.dirname(_os.path.dirname(_os.path.abspath(__file__))))


def _setup_threads():
  world.fresh()
  gin.parse_config(['a/vw.dflt.a = 1', 'b/vw.dflt.a = 2', 'a/x/vw.dflt.b = 3'])


def _nest_program(outer, inner, raises):
  def prog():
    seen = []
    try:
      with gin.config_scope(outer):
        seen.append(gin.current_scope())
        seen.append(world.dflt()[0])             # scoped binding observed by this thread
        with gin.config_scope(inner):
          seen.append(gin.current_scope())
          if raises:
            raise KeyError('body')
        seen.append(gin.current_scope())
    except KeyError:
      seen.append('raised')
    seen.append(gin.current_scope())
    return seen
  return prog


def thread_scenarios(tier):
  out = [('scopes: a/x | b/y(raises)', [_nest_program('a', 'x', False), _nest_program('b', 'y', True)]),
         ('scopes: a/x | a/x | b(list)', [_nest_program('a', 'x', False), _nest_program('a', 'x', False),
                                          _nest_program(['b'], 'z', False)][:3 if tier == 'thorough' else 2])]
  return out


def _check_threads(solo):
  def check(results, final):
    for i, r in enumerate(results):
      if r is None or r[0] == 'exc':
        return 'thread %d failed: %r' % (i, r)
      if solo[0] is not None and r[1] != solo[0][i]:
        return 'thread %d observed %r; alone it observes %r' % (i, r[1], solo[0][i])
    return None
  return check


def c09_forced(tier: str, scenario: int, schedule: str, shared: str) -> bool:
  from vf.sched import driver
  name, programs = thread_scenarios(tier)[scenario]
  # solo observations first (each program alone)
  solo = []
  for p in programs:
    _setup_threads()
    solo.append(p())
  sched = [int(x) for x in schedule.split(',') if x != '']
  traces, results, errors, final, names = driver.run(programs, _setup_threads, 'forced', sched,
                                                     list(range(len(programs))), set(shared.split('|')))
  v = _check_threads([solo])(results, final)
  if v and _os.environ.get('VERIF_EXPLAIN'):
    _sys.stderr.write('FAIL: %s\n' % v)
  return v is None


def engine_s_main(tier, seed):
  import time
  from vf.sched import driver
  t0 = time.time()
  cov = dict(states=0, queries=0, solver_s=0.0, replayed=0, samples=[], sigs={}, exhaustive=True, scenarios=[])
  violations, infra = [], []
  for idx, (name, programs) in enumerate(thread_scenarios(tier)):
    solo = [None]
    scen = driver.Scenario(name, programs, _setup_threads, lambda m, s: driver.standard_queries(m, s),
                           _check_threads(solo))
    # the sequential run gives every thread's solo observations
    driver.LIST_INIT.clear()
    traces, results, errors, final, names = driver.run(programs, _setup_threads, 'solo')
    solo[0] = [r[1] for r in results]
    try:
      vs, exhaustive = scen.solve()
    except Exception:
      import traceback
      infra.append('%s: %s' % (name, traceback.format_exc()[-800:]))
      continue
    cov['states'] += max(scen.stats['states'], 1)
    cov['queries'] += max(scen.stats['queries'], 1)
    cov['solver_s'] += scen.stats['solver_s']
    cov['replayed'] += scen.forced_runs
    cov['samples'].extend(scen.samples)
    cov['sigs'][name] = True
    cov['exhaustive'] = cov['exhaustive'] and exhaustive and not vs
    cov['scenarios'].append(dict(name=name, threads=len(programs), learn_iterations=scen.stats['learn_iters'],
                                 forced_runs=scen.forced_runs, shared=sorted(getattr(scen, 'shared', [])),
                                 solo_observations=repr(solo[0])[:300]))
    infra.extend(scen.infra)
    for text, sched in vs:
      violations.append(dict(text=text, kwargs=dict(tier=tier, scenario=idx,
                                                    schedule=','.join(map(str, sched)),
                                                    shared='|'.join(sorted(getattr(scen, 'shared', []))))))
  cov['solver_s'] = round(cov['solver_s'], 2)
  return dict(coverage=cov, violations=violations, infra=infra,
              functions=['gin.config:enter_scope', 'gin.config:exit_scope', 'gin.config:current_scope'])


def engine_s(tier, seed):
  env = dict(_os.environ)
  env.pop('VERIF_NO_CROSSHAIR', None)
  env['PYTHONPATH'] = _ROOT + ':' + _os.environ.get('VERIF_REPO', '/repo')
  p = _subprocess.run([_os.path.join(_ROOT, '.venv', 'bin', 'python'), '-c',
                       'import json,sys; from vf.harness import c09; '
                       'sys.stdout.write("@@ENGINE@@" + json.dumps(c09.engine_s_main(%r, %d), default=repr))'
                       % (tier, seed)],
                      cwd=_ROOT, env=env, capture_output=True, text=True, timeout=3000)
  i = p.stdout.rfind('@@ENGINE@@')
  if i < 0:
    return dict(coverage=dict(states=0, exhaustive=False), violations=[],
                infra=['engine S crashed: ' + (p.stderr or p.stdout)[-1500:]])
  res = _json.loads(p.stdout[i + len('@@ENGINE@@'):])
  res['violations'] = [('PENDING', 'c09_forced', v['kwargs'], v['text']) for v in res['violations']]
  return res


ENGINES = {'engine_s': engine_s}
