"""C09 - config scopes nest, are restored on every exit path (sequential half).

The thread half (scope stacks are private to a thread under every interleaving)
is Engine S: vf/sched (hooked in through ENGINES below).
"""
import gin
from vf import rt
from vf import world

# entry kinds of one nesting level.  0-9 are the kinds of the first version; 10-15 come from the
# vocabulary review (names the validation accepts / rejects by other routes).
KINDS = ["'a'", "'b/c'", "['x', 'y']", 'None', "''", "'1bad'", '42', "['ok', 'not ok']",
         "'a/'", '[]',
         "'a.b'", "['a', 1]", '[None]', "['a/b']", "('x', 'y')", "b'a'"]
ENTRY = ['a', 'b/c', ['x', 'y'], None, '', '1bad', 42, ['ok', 'not ok'], 'a/', [],
         'a.b', ['a', 1], [None], ['a/b'], ('x', 'y'), b'a']
NK = len(ENTRY)
# The statement does not fix the exception type of an invalid entry.  The kinds of the first version must
# raise ValueError as they always had to; for the new invalid kinds TypeError is accepted as well (today
# re.match raises it for a non-string list member, kinds 11 and 12, AFTER the scope was pushed).
TYPE_ERROR_OK = (11, 12, 13, 14, 15)


class Boom(Exception):
  pass


def model_enter(cur, kind):
  """Reference: (valid?, new active scope) for entering ENTRY[kind] from `cur`."""
  e = ENTRY[kind]
  if kind in (0, 1, 10):
    return True, cur + e.split('/')
  if kind in (2, 9):
    return True, list(e)
  if kind in (3, 4):
    return True, []
  return False, cur


# ---- scoped bindings observed at every level ("the scope, or the scoped bindings, ... observes") ----
BIND = {(): {'b': 4}, ('a',): {'a': 1}, ('a', 'b'): {'b': 2}, ('x',): {'a': 3}, ('q', 'r'): {'a': 7},
        ('a.b',): {'a': 8}}
BASE_CFG = ['a/vw.dflt.a = 1', 'a/b/vw.dflt.b = 2', 'x/vw.dflt.a = 3', 'vw.dflt.b = 4',
            'q/r/vw.dflt.a = 7', 'q/vw.Kinit.a = 6', 'q/vw.Kmeth.meth.a = 8']
REF_CFG = ['vw.cons.p = @q/r/vw.src()', 'vw.cons.q = @t/vw.src', 'q/r/vw.src.v = 11', 't/vw.src.v = 12']
MAC_CFG = ['m = 5', 'vw.cons.p = %m', 'vw.cons.q = %vwc09.K']


def model_bindings(scope, inherit=True):
  """Reference for the bindings of vw.dflt that apply under the active scope `scope`."""
  out = {}
  if not inherit:
    out.update(BIND.get(tuple(scope), {}))
    return out
  for i in range(len(scope) + 1):
    out.update(BIND.get(tuple(scope[:i]), {}))
  return out


def model_dflt(scope):
  b = model_bindings(scope)
  return (b.get('a', world.DA), b.get('b', world.DB))


def _setup_world(leaf):
  world.fresh()
  gin.parse_config(BASE_CFG)
  gin.bind_parameter('a.b/vw.dflt.a', 8)   # a dotted scope name cannot be written in config text
  if leaf in (5, 6):
    gin.parse_config(REF_CFG)
  if leaf == 7:
    gin.constant('vwc09.K', 7)
    gin.parse_config(MAC_CFG)
  world.RAISE[0] = None


def _obs(scope, st, where):
  """The unscoped probe must receive exactly the bindings of `scope` and run under it."""
  with rt.native():
    r = world.dflt()
    if r != model_dflt(scope) or world.LOG[-1][3] != scope or gin.current_scope() != scope:
      st['bad'] = 'dflt() %s: got %r under %r, the scope %r gives %r' % (
          where, r, world.LOG[-1][3], scope, model_dflt(scope))
      return False
  return True


LEAVES = ['none', "get_configurable('q/r/vw.dflt')()", 'unscoped dflt() + get_bindings',
          "get_configurable('q/r/vw.boom')() raising, caught at once",
          'unscoped outer2() (enters deep, calls outer1 -> boom) raising, caught at once',
          "get_configurable('q/r/vw.outer2')() raising, caught at level 0",
          'cons() with p = @q/r/vw.src() and q = @t/vw.src (called there and later)',
          'cons() with a macro and a constant',
          'get_configurable(<function>) / (unscoped selector): scope captured at lookup, called there and later',
          "classes: 'q/vw.Kinit', 'q/vw.Kreg', 'q/vw.Kmeth' instance whose meth() runs there and later"]
NL = len(LEAVES)


def run_leaf(leaf, before, st):
  """The innermost action.  Returns False on a disagreement; may raise Boom (leaf 5)."""
  if leaf == 1:      # a scoped configurable call replaces the scope inside, restores after
    r = gin.get_configurable('q/r/vw.dflt')()
    if world.LOG[-1][3] != ['q', 'r'] or r != model_dflt(['q', 'r']):
      return rt.no('scoped call ran under %r and returned %r' % (world.LOG[-1][3], r))
  elif leaf == 2:    # an unscoped probe sees exactly the active scope and its bindings
    r = world.dflt()
    if world.LOG[-1][3] != before or r != model_dflt(before):
      return rt.no('unscoped probe ran under %r and returned %r, active %r' % (world.LOG[-1][3], r, before))
    if gin.get_bindings('vw.dflt') != model_bindings(before):
      return rt.no('get_bindings under %r' % (before,))
    if gin.get_bindings('vw.dflt', inherit_scopes=False) != model_bindings(before, False):
      return rt.no('get_bindings(inherit_scopes=False) under %r' % (before,))
  elif leaf in (3, 4):   # the exception is born inside the (scoped) call
    world.RAISE[0] = Boom('leaf')
    try:
      if leaf == 3:
        gin.get_configurable('q/r/vw.boom')()
      else:
        world.outer2()
      return rt.no('the exception raised inside the configurable was swallowed')
    except Boom:
      pass
  elif leaf == 5:    # ... and crosses the scoping wrapper, 'deep' and every level of the nest in one throw
    world.RAISE[0] = Boom('leaf')
    st['flying'] = 'boom'
    st['catch_at'] = 0
    gin.get_configurable('q/r/vw.outer2')()
    return rt.no('the exception raised inside the configurable was swallowed')
  elif leaf == 6:    # scoped references written in config text
    n = len(world.SRC_CALLS)
    p, q = world.cons()
    if p != [11] or world.SRC_CALLS[n:] != [(11, ['q', 'r'])] or world.LOG[-1][3] != before:
      return rt.no('@q/r/vw.src() gave %r, calls %r, cons under %r' % (p, world.SRC_CALLS[n:], world.LOG[-1][3]))
    if gin.current_scope() != before:
      return rt.no('scope after evaluating a scoped reference')
    if q() != [12] or world.SRC_CALLS[n + 1:] != [(12, ['t'])]:
      return rt.no('@t/vw.src called under %r: calls %r' % (before, world.SRC_CALLS[n + 1:]))
    st['late'].append(('ref', q, None))
  elif leaf == 7:    # %macro / %constant are evaluated under a replacing list scope
    r = world.cons()
    if r != (5, 7) or world.LOG[-1][3] != before:
      return rt.no('macro / constant under %r gave %r (cons ran under %r)' % (before, r, world.LOG[-1][3]))
  elif leaf == 8:    # without a scope in the argument, the scope active at lookup time is attached
    for f in (gin.get_configurable(world.dflt), gin.get_configurable('vw.dflt')):
      r = f()
      if world.LOG[-1][3] != before or r != model_dflt(before):
        return rt.no('looked up and called under %r: ran under %r, got %r' % (before, world.LOG[-1][3], r))
      st['late'].append(('fn', f, list(before)))
  elif leaf == 9:    # scoped class references: constructor and registered methods
    o = gin.get_configurable('q/vw.Kinit')()
    if world.LOG[-1] != ('Kinit', (6, world.DB), {}, ['q']) or o.got != (6, world.DB):
      return rt.no('q/vw.Kinit: %r' % (world.LOG[-1],))
    if gin.current_scope() != before:
      return rt.no('scope after a scoped class call')
    gin.get_configurable('q/vw.Kreg')()
    if world.LOG[-1] != ('Kreg', (world.DA, world.DB), {}, ['q']):
      return rt.no('q/vw.Kreg: %r' % (world.LOG[-1],))
    inst = gin.get_configurable('q/vw.Kmeth')()
    if gin.current_scope() != before:
      return rt.no('scope after a scoped class call')
    if not _meth(inst, before):
      return False
    st['late'].append(('meth', inst, None))
  return gin.current_scope() == before or rt.no('scope after the innermost action: %r, before %r' %
                                                (gin.current_scope(), before))


def _meth(inst, active):
  """inst.meth() of a 'q/'-scoped class: the statement does not say whether the method runs under the
  scope of the class reference or under the active one - either, with the matching binding."""
  r = inst.meth()
  ran = world.LOG[-1][3]
  if ran == ['q']:
    want = (8, world.DB)
  elif ran == active:
    want = (world.DA, world.DB)
  else:
    return rt.no('meth() ran under %r (active %r)' % (ran, active))
  if r != want:
    return rt.no('meth() under %r returned %r' % (ran, r))
  return gin.current_scope() == active or rt.no('scope after meth(): %r, active %r' % (gin.current_scope(), active))


def _late(st):
  """Callables obtained inside the nest are called after it, at the root and under another scope."""
  for kind, f, captured in st['late']:
    for outer in (None, 'z'):
      active = [] if outer is None else ['z']
      n = len(world.SRC_CALLS)
      with gin.config_scope(outer):
        if kind == 'ref':
          if f() != [12] or world.SRC_CALLS[n:] != [(12, ['t'])]:
            return rt.no('@t/vw.src called later under %r: %r' % (active, world.SRC_CALLS[n:]))
        elif kind == 'fn':
          r = f()
          ran = world.LOG[-1][3]
          # captured at lookup (what get_configurable documents) or the scope active at the call
          if ran not in (captured, active) or r != model_dflt(ran):
            return rt.no('callable looked up under %r, called under %r: ran under %r, got %r' %
                         (captured, active, ran, r))
        elif not _meth(f, active):
          return False
        if gin.current_scope() != active:
          return rt.no('scope after a late call under %r: %r' % (active, gin.current_scope()))
      if gin.current_scope() != []:
        return rt.no('scope after a late call')
  return True


def run_level(level, kinds, exits, depth, leaf, log, st):
  """Enters level `level`; returns False as soon as an observation disagrees.

  An exception may be caught by the level that raised it or by level 0 (st['catch_at']); in the second
  case it crosses every scope frame in between in one throw, and each of those levels checks, while the
  exception passes, that ITS previously active scope is back.  Failures seen while an exception is in
  flight are kept in st['bad'] (the return value of the frames being unwound is lost)."""
  before = gin.current_scope()
  if level == depth:
    with rt.native():      # nothing symbolic is left in the innermost action: it runs on the plain interpreter
      return run_leaf(leaf, before, st)
  # F-choices of a level are made lazily, only when the level is reached (and the way of leaving only
  # when the body got to its end): the body of an invalid entry never runs, so everything behind it is
  # one path.
  k = kinds[level] = rt.pick(kinds[level], NK)
  valid, inside = model_enter(before, k)
  entry = ENTRY[k]
  if valid:
    log.append(k)
  if type(entry) is list:
    entry = list(entry)        # the caller's own list object, a fresh one for every entry
  x = 0
  if not valid:
    x = exits[level] = rt.pick(exits[level], 2) if level else 0
    log.append((k, x))          # an invalid entry: caught here (0) or by level 0 (1)
    st['flying'] = 'invalid'
    st['catch_at'] = 0 if x else level
  ok = True
  caught = False
  try:
    with gin.config_scope(entry) as s:
      if not valid:
        return rt.no('the body of an invalid entry %s ran' % KINDS[k])
      if gin.current_scope() != inside or s != inside:
        return rt.no('entering %s from %r gives %r (yielded %r)' % (KINDS[k], before, gin.current_scope(), s))
      if gin.current_scope_str() != '/'.join(inside):
        return False
      if not _obs(inside, st, 'inside level %d' % level):
        return False
      ok = run_level(level + 1, kinds, exits, depth, leaf, log, st)
      if gin.current_scope() != inside:
        return rt.no('back in level %d the scope is %r, not %r' % (level, gin.current_scope(), inside))
      x = exits[level] = rt.pick(exits[level], 3 if level else 2)
      log.append((level, 'normal' if not x else 'raise, caught by level %d' % (level if x == 1 else 0)))
      if x:
        st['flying'] = 'boom'
        st['catch_at'] = level if x == 1 else 0
        raise Boom()
  except (Boom, ValueError, TypeError) as e:
    fl = st['flying']
    if fl is None or isinstance(e, Boom) != (fl == 'boom'):
      st['bad'] = 'unexpected %r at level %d' % (e, level)
      return False
    if not valid and isinstance(e, TypeError) and k not in TYPE_ERROR_OK:
      st['bad'] = 'entering %s raises TypeError' % KINDS[k]
    # whatever the exception is and wherever it is going, this level's previous scope is back
    if gin.current_scope() != before:
      st['bad'] = 'while %r passes level %d the scope is %r, before the block it was %r' % (
          e, level, gin.current_scope(), before)
    else:
      _obs(before, st, 'while an exception passes level %d' % level)
    if st['catch_at'] != level:
      raise
    st['flying'] = None
    caught = True
  if st['bad']:
    return rt.no(st['bad'])
  if (not valid or x) and not caught:
    return rt.no('level %d: the exception did not arrive' % level)
  if not ok:
    return False
  if gin.current_scope() != before:
    return rt.no('after level %d the scope is %r, before it was %r' % (level, gin.current_scope(), before))
  return _obs(before, st, 'after level %d' % level)


def c09_nest(depth: int, leaf: int, k0: int, k1: int, k2: int, k3: int,
             e0: int, e1: int, e2: int, e3: int) -> bool:
  """
  pre: 0 <= leaf < 10 and 0 <= k0 < 16 and 0 <= k1 < 16 and 0 <= k2 < 16 and 0 <= k3 < 16
  pre: 0 <= e0 < 3 and 0 <= e1 < 3 and 0 <= e2 < 3 and 0 <= e3 < 3
  """
  leaf = rt.pick(leaf, NL)
  with rt.native():
    _setup_world(leaf)
  kinds = [k0, k1, k2, k3]
  exits = [e0, e1, e2, e3]     # 0 leave normally, 1 exception caught by this level, 2 ... by level 0
  log = []
  st = dict(bad=None, flying=None, catch_at=0, late=[])
  try:
    ok = run_level(0, kinds, exits, depth, leaf, log, st)
  except Boom:
    if depth > 0:
      raise
    ok = True                # depth 0: the leaf exception has no level to be caught by
  rt.sig(('nest', depth, leaf, tuple(log)), nontrivial=len(log) >= 3)
  if not ok or st['bad']:
    return rt.no(st['bad'] or 'see above')
  if gin.current_scope() != [] or gin.current_scope_str() != '':
    return rt.no('scope after the outermost block: %r' % (gin.current_scope(),))
  with rt.native():
    return _late(st) and gin.current_scope() == []


OUTER = ['', 'o', 'o/p', ['l', 'm'], None]
INNER = ['i', 'i/j', ['k'], None, '']
HOWS = ['inline', 'context manager created before the outer scope is entered', 'decorator on a function defined before',
        'context manager created inside another scope', 'decorated function called twice',
        'decorated function calling itself (3 deep)', 'one stored context manager entered twice']
XKS = ['end of block', 'KeyboardInterrupt', 'SystemExit', 'StopIteration', 'return', 'break', 'continue']


def c09_deferred(how: int, outer: int, inner: int, xk: int) -> bool:
  """
  pre: 0 <= how < 7 and 0 <= outer < 5 and 0 <= inner < 5 and 0 <= xk < 7
  """
  how = rt.pick(how, 7)      # see HOWS
  outer = rt.pick(outer, 5)
  inner = rt.pick(inner, 5)
  xk = rt.pick(xk, 7)        # how the block / the decorated function is left: see XKS
  if (how >= 4 and xk) or (how == 2 and xk in (5, 6)):
    rt.discard()             # break / continue need a with STATEMENT; the reuse forms are left normally
  rt.sig(('deferred', how, outer, inner, xk), nontrivial=how != 0 or xk != 0)
  with rt.native():
    world.fresh()
    o, i = OUTER[outer], INNER[inner]
    seen = []
    mids = []
    second = []

    def leave():
      if xk == 1:
        raise KeyboardInterrupt()
      if xk == 2:
        raise SystemExit(3)
      if xk == 3:
        raise StopIteration('v')

    def block(c):
      # one `with` statement inside a helper and a loop, so that return / break / continue can leave it
      for _ in (0,):
        with c:
          seen.append(gin.current_scope())
          leave()
          if xk == 4:
            return 'returned'
          if xk == 5:
            break
          if xk == 6:
            continue
          seen.append('end')
      return 'end'

    if how in (1, 6):
      cm = gin.config_scope(i)
    elif how in (2, 4, 5):
      @gin.config_scope(i)
      def decorated(n=0):
        seen.append(gin.current_scope())
        if how == 5 and n < 2:
          decorated(n + 1)
          seen.append(gin.current_scope())
        leave()
        if xk == 4:
          return 'returned'
        seen.append('end')
        return 'end'
    elif how == 3:
      with gin.config_scope('elsewhere'):
        cm = gin.config_scope(i)

    def body():
      base = gin.current_scope()
      try:
        if how == 0:
          block(gin.config_scope(i))
        elif how in (1, 3):
          block(cm)
        elif how in (2, 5):
          decorated()
        elif how == 4:
          decorated()
          mids.append(gin.current_scope())
          decorated()
        else:
          block(cm)
          mids.append(gin.current_scope())
          try:
            block(cm)
            second.append('ran')
          except Exception as e:   # contextlib refuses an exhausted generator (AttributeError / RuntimeError)
            second.append('raised')
      except (KeyboardInterrupt, SystemExit, StopIteration, RuntimeError):
        seen.append('exception arrived')
      return base, gin.current_scope()

    if outer == 0:
      base, after = body()
    else:
      with gin.config_scope(o):
        base, after = body()

    # the scope is composed from what is active when the block is ENTERED
    def want_from(b):
      if isinstance(i, list):
        return list(i)
      if i:
        return b + i.split('/')
      return []
    want = want_from(base)
    tail = ['end'] if xk == 0 else (['exception arrived'] if xk in (1, 2, 3) else [])
    if how < 4:
      if seen[:1] != [want]:
        return rt.no('inside the block the scope is %r, expected %r (%s, outer %r, inner %r)' %
                     (seen, want, HOWS[how], o, i))
      # the statement does not say what becomes of the exception itself; only code behind the raise must not run
      if seen[1:] != tail and not (xk in (1, 2, 3) and seen[1:] == []):
        return rt.no('leaving by %s: %r' % (XKS[xk], seen))
    elif how == 4:
      if seen != [want, 'end', want, 'end'] or mids != [base]:
        return rt.no('decorated function called twice: %r, between the calls %r (base %r)' % (seen, mids, base))
    elif how == 5:
      w1 = want_from(want)
      w2 = want_from(w1)
      if seen != [want, w1, w2, 'end', w1, 'end', want, 'end']:
        return rt.no('recursive decorated function: %r' % (seen,))
    else:
      if seen[:2] != [want, 'end'] or mids != [base]:
        return rt.no('stored context manager, first use: %r %r' % (seen, mids))
      # a second entry of one context-manager object is refused by contextlib; the statement only asks that
      # the scope is what it was - (or, had it been accepted, that it behaved like the first)
      if second == ['raised']:
        if seen[2:] != []:
          return rt.no('stored context manager, refused second use ran the body: %r' % (seen,))
      elif seen[2:] != [want, 'end']:
        return rt.no('stored context manager, second use: %r' % (seen,))
    return (after == base and gin.current_scope() == []) or rt.no(
        'scope not restored: %r after the block, %r before it, %r at the end' % (after, base, gin.current_scope()))


FIRST = ["'a/b' at the root", "'c' under 'o'", "the caller's own list ['x', 'y']", 'None']
MODES = ['re-entered alone', "re-entered, a named scope 'w' inside it, re-entered again",
         'the same list object entered at two depths']
MUTS = ['not mutated', "append('z') while active", 'clear() while active']


def c09_capture(first: int, outer: int, mode: int, mut: int) -> bool:
  """
  pre: 0 <= first < 4 and 0 <= outer < 5 and 0 <= mode < 3 and 0 <= mut < 3
  """
  first = rt.pick(first, 4)
  outer = rt.pick(outer, 5)
  mode = rt.pick(mode, 3)
  mut = rt.pick(mut, 3)
  rt.sig(('capture', first, outer, mode, mut), nontrivial=True)
  with rt.native():
    world.fresh()
    # 1. capture: `with config_scope(...) as s` yields the resulting scope
    if first == 0:
      with gin.config_scope('a/b') as s:
        pass
      s0 = ['a', 'b']
    elif first == 1:
      with gin.config_scope('o'):
        with gin.config_scope('c') as s:
          pass
      s0 = ['o', 'c']
    elif first == 2:
      with gin.config_scope(['x', 'y']) as s:
        pass
      s0 = ['x', 'y']
    else:
      with gin.config_scope(None) as s:
        pass
      s0 = []
    if s != s0 or gin.current_scope() != []:
      return rt.no('captured %r, expected %r' % (s, s0))
    o = OUTER[outer]
    notes = []

    def mutate():
      if mut == 1:
        s.append('z')
      elif mut == 2:
        s.clear()

    def active(suffix, exact):
      """The scope must be s0 + suffix.  Once the CALLER has changed the list it handed in, the list as it is
      now is accepted as well (aliasing of the caller's own object: the statement does not speak about it)."""
      cur = gin.current_scope()
      if cur == s0 + suffix:
        return True
      if not exact and cur == list(s) + suffix:
        notes.append('aliased')
        return True
      return rt.no('scope %r, expected %r + %r (the list is now %r)' % (cur, s0, suffix, s))

    def body():
      base = gin.current_scope()
      with gin.config_scope(s) as t:          # an explicit list REPLACES the active scope
        if t != s0 or not active([], True):
          return rt.no('re-entering %r under %r gives %r (yielded %r)' % (s0, base, gin.current_scope(), t))
        if mode == 0:
          mutate()
          if not active([], mut == 0):
            return False
        elif mode == 1:
          with gin.config_scope('w') as u:
            if u != s0 + ['w'] or not active(['w'], True):
              return rt.no("'w' inside the re-entered scope: %r" % (u,))
            mutate()
          # entering 'w' must not have extended the caller's list
          if mut == 0 and s != s0:
            return rt.no("the captured list was changed by entering 'w' inside it: %r" % (s,))
          if not active([], mut == 0):
            return False
          with gin.config_scope(s):
            if not active([], mut == 0):
              return False
          if not active([], mut == 0):
            return False
        else:
          with gin.config_scope(s) as t2:
            if not active([], True):
              return False
            mutate()
            if not active([], mut == 0):
              return False
          if not active([], mut == 0):
            return False
      # frames that are not the caller's list are restored exactly, mutated or not
      if gin.current_scope() != base:
        return rt.no('after the re-entered block the scope is %r, before it was %r' % (gin.current_scope(), base))
      return True

    if outer == 0:
      ok = body()
    else:
      with gin.config_scope(o):
        ok = body()
    return ok and (gin.current_scope() == [] or rt.no('scope at the end %r' % (gin.current_scope(),)))


_NEST_ANCHORS = ['gin.config:config_scope', 'gin.config:enter_scope', 'gin.config:exit_scope',
                 'gin.config:_decorate_with_scope']
_KIND_BOUNDS = ('16 entry kinds per level (name, a/b shorthand, dotted name, list, None, empty string, empty list; 9 invalid: '
                'bad identifier, non-string, list with a bad member, trailing slash, list with a non-string member (int / None: '
                'TypeError from the validation, after the push), list member with a slash, tuple, bytes); every valid level is '
                'left normally, by an exception caught by that level, or by an exception caught by level 0 (one throw through '
                'every frame in between); the error of an invalid entry is caught by its own level or by level 0; the unscoped '
                'probe dflt() is called inside every level, after every exit and while an exception passes, and must return the '
                'bindings of a/, a/b/, x/, a.b/ and the root that the reference model gives for the active scope')

# ---- other API calls made while scopes are open must leave the scope stack alone (round e seed C09-e:
#      clear_config() reset the calling thread's scope stack) ---------------------------------------------------------
def c09_apis(depth: int, api: int, where: int, how: int) -> bool:
  """
  pre: 1 <= depth <= 3 and 0 <= api < 6 and 0 <= where < 3 and 0 <= how < 2
  """
  depth, api, how = 1 + rt.pick(depth - 1, 3), rt.pick(api, 6), rt.pick(how, 2)
  where = rt.pick(where, 3)
  if where >= depth:
    rt.discard()
  rt.sig(('apis', depth, api, where, how), nontrivial=True)
  with rt.native():
    world.fresh()
    names = ['train', 'a/b', 'c'][:depth]
    expect = []
    stack = []
    for n in names:
      expect = expect + n.split('/')
      stack.append(list(expect))

    def call_api():
      if api == 0:
        gin.clear_config()
      elif api == 1:
        gin.clear_config(clear_constants=True)
      elif api == 2:
        gin.parse_config('vw.dflt.a = 1')
      elif api == 3:
        gin.finalize()
        with gin.unlock_config():
          gin.bind_parameter('vw.dflt.b', 2)
      elif api == 4:
        gin.config_str()
        gin.operative_config_str()
      else:
        try:
          gin.parse_config('vw.nosuch.x = 1')
        except ValueError:
          pass

    def level(k):
      with gin.config_scope(names[k]):
        if gin.current_scope() != stack[k]:
          return 'scope %r after entering level %d' % (gin.current_scope(), k)
        if k == where:
          call_api()
          if gin.current_scope() != stack[k]:
            return 'an API call changed the active scope inside the block: %r, expected %r' % (gin.current_scope(), stack[k])
        if k + 1 < depth:
          r = level(k + 1)
          if r:
            return r
          if gin.current_scope() != stack[k]:
            return 'scope %r after leaving level %d, expected %r' % (gin.current_scope(), k + 1, stack[k])
        if how == 1 and k == depth - 1:
          raise world.Boom('leave by exception') if hasattr(world, 'Boom') else KeyError('leave by exception')
      return None
    try:
      r = level(0)
    except Exception as e:   # the exception of how == 1 (or a failure of the scope machinery itself)
      r = None if (how == 1 and 'leave by exception' in str(e)) else 'exception %r' % (e,)
    if r:
      return rt.no(r)
    try:
      now = gin.current_scope()
    except Exception as e:   # noqa
      return rt.no('current_scope() raised %r after the blocks' % (e,))
    if now != []:
      return rt.no('scope %r after the outermost block' % (now,))
    with gin.config_scope('z'):
      if gin.current_scope() != ['z']:
        return rt.no('a later block sees %r' % (gin.current_scope(),))
  return True


HARNESSES = {
    'c09_apis': dict(
        fn='c09_apis',
        anchors=['gin.config:config_scope', 'gin.config:clear_config'],
        smoke=[dict(depth=3, api=0, where=1, how=0), dict(depth=2, api=3, where=0, how=1), dict(depth=1, api=5, where=0, how=0)],
        tiers={'quick': dict(split=dict(api=list(range(6))), budget_s=60),
               'thorough': dict(split=dict(api=list(range(6))), budget_s=60)},
        bounds='1-3 nested named scopes; at one level another API is called while the blocks are open (clear_config '
               'with and without constants, parse_config, finalize + unlock_config + bind, the two config strings, a '
               'failing parse); the active scope must be unchanged right after the call and restored exactly on every '
               'exit (normal or by exception), and a later block must start from the empty scope'),
    'c09_deferred': dict(
        fn='c09_deferred',
        anchors=['gin.config:config_scope'],
        smoke=[dict(how=1, outer=1, inner=0, xk=0), dict(how=2, outer=2, inner=1, xk=0),
               dict(how=4, outer=1, inner=0, xk=0), dict(how=5, outer=3, inner=1, xk=0),
               dict(how=6, outer=2, inner=2, xk=0), dict(how=0, outer=1, inner=0, xk=1),
               dict(how=1, outer=2, inner=1, xk=2), dict(how=2, outer=1, inner=0, xk=3),
               dict(how=3, outer=1, inner=3, xk=4), dict(how=0, outer=4, inner=0, xk=5),
               dict(how=1, outer=3, inner=4, xk=6)],
        tiers={'quick': dict(split=dict(how=[0, 1, 2, 3, 4, 5, 6]), budget_s=90),
               'thorough': dict(split=dict(how=[0, 1, 2, 3, 4, 5, 6]), budget_s=90)},
        bounds='config_scope used inline / as a context manager created before (or inside another scope than) the place '
               'where it is entered / as a decorator / as a decorator called twice / as a decorator on a function that '
               'calls itself 3 deep / as one stored context manager entered twice, x 5 outer scopes x 5 inner scope '
               'arguments; the first four forms are left in 7 ways: end of block, KeyboardInterrupt, SystemExit, '
               'StopIteration, return, break, continue'),
    'c09_capture': dict(
        fn='c09_capture',
        anchors=['gin.config:config_scope', 'gin.config:enter_scope', 'gin.config:exit_scope'],
        smoke=[dict(first=0, outer=1, mode=0, mut=0), dict(first=1, outer=3, mode=1, mut=0),
               dict(first=2, outer=2, mode=2, mut=1), dict(first=3, outer=0, mode=1, mut=2)],
        tiers={'quick': dict(split=dict(first=[0, 1, 2, 3]), budget_s=90),
               'thorough': dict(split=dict(first=[0, 1, 2, 3]), budget_s=90)},
        bounds="a scope list captured with `as s` (from 'a/b', from 'c' under 'o', from the caller's own list, from None) "
               "is entered again under 5 outer scopes: alone / with a named scope inside it and once more / at two depths "
               "at once; the caller leaves the list alone, appends to it or clears it while it is active (then both the "
               "old and the new contents are accepted for the frames that ARE that list; every other frame is exact)"),
    'c09_nest': dict(
        fn='c09_nest',
        anchors=_NEST_ANCHORS,
        smoke=[dict(depth=3, leaf=1, k0=0, k1=2, k2=1, k3=0, e0=1, e1=0, e2=0, e3=0),
               dict(depth=3, leaf=2, k0=1, k1=3, k2=0, k3=0, e0=0, e1=1, e2=1, e3=0),
               dict(depth=3, leaf=2, k0=0, k1=1, k2=10, k3=0, e0=0, e1=0, e2=2, e3=0),
               dict(depth=3, leaf=0, k0=2, k1=0, k2=11, k3=0, e0=0, e1=0, e2=1, e3=0),
               dict(depth=3, leaf=0, k0=10, k1=4, k2=12, k3=0, e0=0, e1=2, e2=0, e3=0),
               dict(depth=3, leaf=2, k0=0, k1=13, k2=0, k3=0, e0=0, e1=1, e2=0, e3=0),
               dict(depth=3, leaf=0, k0=1, k1=14, k2=0, k3=0, e0=0, e1=0, e2=0, e3=0),
               dict(depth=3, leaf=0, k0=9, k1=0, k2=15, k3=0, e0=1, e1=1, e2=1, e3=0)],
        # e0 (how level 0 is left: the last choice of a path) is split as well: it halves a partition
        tiers={'quick': dict(split=dict(k0=list(range(NK)), leaf=[0, 1, 2], e0=[0, 1]),
                             fixed=dict(depth=3, k3=0, e3=0), budget_s=200),
               'thorough': dict(split=dict(k0=list(range(NK)), k1=list(range(NK)), leaf=[0, 1, 2]),
                                fixed=dict(depth=4), budget_s=900)},
        bounds='nesting depth 3 (quick) / 4 (thorough); ' + _KIND_BOUNDS + '; innermost action: none / scoped '
               'get_configurable call (scope and value) / unscoped probe + get_bindings with and without inheritance'),
    'c09_leaves': dict(
        fn='c09_nest',
        anchors=_NEST_ANCHORS,
        smoke=[dict(depth=2, leaf=3, k0=0, k1=2, k2=0, k3=0, e0=0, e1=1, e2=0, e3=0),
               dict(depth=2, leaf=4, k0=1, k1=0, k2=0, k3=0, e0=1, e1=0, e2=0, e3=0),
               dict(depth=2, leaf=5, k0=2, k1=0, k2=0, k3=0, e0=0, e1=0, e2=0, e3=0),
               dict(depth=2, leaf=6, k0=0, k1=2, k2=0, k3=0, e0=0, e1=2, e2=0, e3=0),
               dict(depth=2, leaf=7, k0=2, k1=9, k2=0, k3=0, e0=0, e1=0, e2=0, e3=0),
               dict(depth=2, leaf=8, k0=0, k1=1, k2=0, k3=0, e0=0, e1=0, e2=0, e3=0),
               dict(depth=2, leaf=9, k0=10, k1=2, k2=0, k3=0, e0=1, e1=0, e2=0, e3=0)],
        tiers={'quick': dict(split=dict(leaf=[3, 4, 5, 6, 7, 8, 9]),
                             fixed=dict(depth=2, k2=0, k3=0, e2=0, e3=0), budget_s=200),
               'thorough': dict(split=dict(k0=list(range(NK)), leaf=[3, 4, 5, 6, 7, 8, 9]),
                                fixed=dict(depth=3, k3=0, e3=0), budget_s=400)},
        bounds='the same nest, depth 2 (quick) / 3 (thorough), with 7 more innermost actions: an exception born inside a '
               'scoped get_configurable call / inside outer2 -> deep/ -> outer1 -> boom, caught at once; the same caught '
               'by level 0; cons() fed by @q/r/vw.src() and by the unevaluated @t/vw.src (called there, and after the '
               'nest at the root and under z/); cons() fed by a %macro and a %constant; get_configurable(function) and '
               "get_configurable('vw.dflt') looked up under the nest and called there and later (captured or active "
               "scope accepted later); scoped classes 'q/vw.Kinit', 'q/vw.Kreg' and a 'q/vw.Kmeth' instance whose "
               'meth() runs there and later (scope of the reference or active scope accepted)'),
}

OUTSIDE = ('exits that are not nested (a generator suspended inside a scope and closed later, ExitStack / __enter__ and '
           '__exit__ called out of order, asyncio tasks sharing a thread): the quantifier speaks of nested entries; '
           'scope names longer than the listed ones; more than 4 levels')
ASSUMPTIONS = ['c09_nest: the entries and exits of the nest run traced; the probe dflt() that observes the bindings, the '
               'innermost action and the late calls run natively (nothing symbolic reaches them); c09_deferred and '
               'c09_capture run natively after their F-choices (the solver certifies that the choice space is covered)',
               "a list the CALLER mutates while it is the active scope is the caller's own aliasing: both contents are "
               'accepted (observed: gin pushes the list object itself, so the mutation shows at once)']


# ---------------------------------------------------------------------------------------------
# Engine S: the scope stack is private to a thread under every interleaving
# ---------------------------------------------------------------------------------------------
import json as _json
import os as _os
import subprocess as _subprocess
import sys as _sys

_ROOT = _os.path.dirname(_os.path.dirname(_os.path.dirname(_os.path.abspath(__file__))))


_SHARED = {}     # objects built by setup() that several threads use at once
_KEEP = []       # a scope the MAIN thread is inside while the threads are started (scenario e)


def _setup_threads():
  while _KEEP:
    try:
      _KEEP.pop().__exit__(None, None, None)
    except Exception:
      pass
  world.fresh()
  gin.parse_config(['a/vw.dflt.a = 1', 'b/vw.dflt.a = 2', 'a/x/vw.dflt.b = 3'])
  _SHARED['f'] = gin.get_configurable('a/vw.dflt')     # one scoped callable: one scope_components list
  _SHARED['L'] = ['b']                                 # one list object handed to config_scope by two threads


def _setup_inside_p():
  """The threads are started while the main thread is inside `with config_scope('p')`."""
  _setup_threads()
  cm = gin.config_scope('p')
  cm.__enter__()
  _KEEP.append(cm)


def _nest_program(outer, inner, raises):
  def prog():
    seen = [gin.current_scope()]                 # a new thread starts at the root, wherever it was started from
    try:
      with gin.config_scope(outer):
        seen.append(gin.current_scope())
        seen.append(world.dflt()[0])             # scoped binding observed by this thread
        with gin.config_scope(inner):
          seen.append(gin.current_scope())
          if raises:
            raise KeyError('body')
        seen.append(gin.current_scope())
    except KeyError:
      seen.append('raised')
    seen.append(gin.current_scope())
    return seen
  return prog


def _probe_program(outer, inner):
  """(a) dflt() inside the inner scope (where a/x binds b) and after each exit."""
  def prog():
    seen = [(gin.current_scope(), world.dflt())]
    with gin.config_scope(outer):
      seen.append((gin.current_scope(), world.dflt()))
      with gin.config_scope(inner):
        seen.append((gin.current_scope(), world.dflt()))
      seen.append((gin.current_scope(), world.dflt()))
    seen.append((gin.current_scope(), world.dflt()))
    return seen
  return prog


def _reject_program(outer, entries):
  """(b) invalid names (push, validate, pop) and the clearing entries None / '' / []."""
  def prog():
    seen = []
    with gin.config_scope(outer):
      for e in entries:
        try:
          with gin.config_scope(list(e) if isinstance(e, list) else e):
            seen.append((gin.current_scope(), world.dflt()[0]))
        except ValueError:
          seen.append('rejected')
        seen.append((gin.current_scope(), world.dflt()[0]))
    seen.append(gin.current_scope())
    return seen
  return prog


def _shared_callable_program(outer):
  """(c) both threads call ONE scoped callable built in setup."""
  def prog():
    f = _SHARED['f']
    seen = []
    with gin.config_scope(outer):
      seen.append(f())                            # runs under a/ whatever this thread has active
      seen.append((gin.current_scope(), world.dflt()))
    seen.append(f())
    seen.append(gin.current_scope())
    return seen
  return prog


def _shared_list_program(inner):
  """(d) both threads hand the SAME list object to config_scope."""
  def prog():
    lst = _SHARED['L']
    seen = []
    with gin.config_scope(lst):
      seen.append((gin.current_scope(), world.dflt()))
      with gin.config_scope(inner):
        seen.append((gin.current_scope(), world.dflt()))
      seen.append(gin.current_scope())
    seen.append((gin.current_scope(), list(lst)))
    return seen
  return prog


def thread_scenarios(tier):
  """(name, programs, setup); the first two are the scenarios of the first version (same indices)."""
  out = [('scopes: a/x | b/y(raises)', [_nest_program('a', 'x', False), _nest_program('b', 'y', True)], _setup_threads),
         ('scopes: a/x | a/x | b(list)', [_nest_program('a', 'x', False), _nest_program('a', 'x', False),
                                          _nest_program(['b'], 'z', False)][:3 if tier == 'thorough' else 2],
          _setup_threads),
         ('bindings: a/x probes | b/y probes', [_probe_program('a', 'x'), _probe_program('b', 'y')], _setup_threads),
         ("rejected and clearing entries: a > 1bad,None,'',[] | b > [],'a/',None",
          [_reject_program('a', ['1bad', None, '', []]), _reject_program('b', [[], 'a/', None])], _setup_threads),
         ('one shared scoped callable a/vw.dflt: under b | under c/d',
          [_shared_callable_program('b'), _shared_callable_program('c/d')], _setup_threads),
         ("one shared list object ['b']: > y | > z", [_shared_list_program('y'), _shared_list_program('z')],
          _setup_threads),
         ("threads started while the main thread is inside p/: a/x probes | b/y(raises)",
          [_probe_program('a', 'x'), _nest_program('b', 'y', True)], _setup_inside_p)]
  if tier == 'thorough':
    out.append(('three threads: a/x probes | rejected entries under a | shared callable under b',
                [_probe_program('a', 'x'), _reject_program('a', ['1bad', None]), _shared_callable_program('b')],
                _setup_threads))
  return out


def _reference(programs):
  """What each program observes when it runs alone on the main thread from the plain setup: the scope and
  the bindings a thread observes must not depend on other threads NOR on where the thread was started."""
  ref = []
  for p in programs:
    _setup_threads()
    ref.append(p())
  _setup_threads()
  return ref


def _check_threads(solo, ref=None):
  def check(results, final):
    for i, r in enumerate(results):
      if r is None or r[0] == 'exc':
        return 'thread %d failed: %r' % (i, r)
      if solo[0] is not None and r[1] != solo[0][i]:
        return 'thread %d observed %r; alone it observes %r' % (i, r[1], solo[0][i])
      if ref is not None and r[1] != ref[i]:
        return 'thread %d observed %r; the same calls on the main thread observe %r' % (i, r[1], ref[i])
    return None
  return check


def c09_forced(tier: str, scenario: int, schedule: str, shared: str) -> bool:
  from vf.sched import driver
  name, programs, setup = thread_scenarios(tier)[scenario]
  # solo observations first (each program alone)
  solo = _reference(programs)
  sched = [int(x) for x in schedule.split(',') if x != '']
  try:
    traces, results, errors, final, names = driver.run(programs, setup, 'forced', sched,
                                                       list(range(len(programs))), set(shared.split('|')))
  finally:
    _setup_threads()
  v = _check_threads([solo], solo)(results, final)
  if v and _os.environ.get('VERIF_EXPLAIN'):
    _sys.stderr.write('FAIL: %s\n' % v)
  return v is None


def engine_s_main(tier, seed):
  import time
  from vf.sched import driver
  t0 = time.time()
  cov = dict(states=0, queries=0, solver_s=0.0, replayed=0, samples=[], sigs={}, exhaustive=True, scenarios=[])
  violations, infra = [], []
  for idx, (name, programs, setup) in enumerate(thread_scenarios(tier)):
    solo = [None]
    ref = _reference(programs)
    scen = driver.Scenario(name, programs, setup, lambda m, s: driver.standard_queries(m, s),
                           _check_threads(solo, ref))
    # the sequential run gives every thread's solo observations
    driver.LIST_INIT.clear()
    traces, results, errors, final, names = driver.run(programs, setup, 'solo')
    solo[0] = [r[1] for r in results]
    try:
      vs, exhaustive = scen.solve()
    except Exception:
      import traceback
      infra.append('%s: %s' % (name, traceback.format_exc()[-800:]))
      continue
    finally:
      _setup_threads()
    cov['states'] += max(scen.stats['states'], 1)
    cov['queries'] += max(scen.stats['queries'], 1)
    cov['solver_s'] += scen.stats['solver_s']
    cov['replayed'] += scen.forced_runs
    cov['samples'].extend(scen.samples)
    cov['sigs'][name] = True
    cov['exhaustive'] = cov['exhaustive'] and exhaustive and not vs
    cov['scenarios'].append(dict(name=name, threads=len(programs), learn_iterations=scen.stats['learn_iters'],
                                 forced_runs=scen.forced_runs, shared=sorted(getattr(scen, 'shared', [])),
                                 solo_observations=repr(solo[0])[:300]))
    infra.extend(scen.infra)
    for text, sched in vs:
      violations.append(dict(text=text, kwargs=dict(tier=tier, scenario=idx,
                                                    schedule=','.join(map(str, sched)),
                                                    shared='|'.join(sorted(getattr(scen, 'shared', []))))))
  cov['solver_s'] = round(cov['solver_s'], 2)
  return dict(coverage=cov, violations=violations, infra=infra,
              functions=['gin.config:enter_scope', 'gin.config:exit_scope', 'gin.config:current_scope'])


def engine_s(tier, seed):
  env = dict(_os.environ)
  env.pop('VERIF_NO_CROSSHAIR', None)
  env['PYTHONPATH'] = _ROOT + ':' + _os.environ.get('VERIF_REPO', '/repo')
  p = _subprocess.run([_os.path.join(_ROOT, '.venv', 'bin', 'python'), '-c',
                       'import json,sys; from vf.harness import c09; '
                       'sys.stdout.write("@@ENGINE@@" + json.dumps(c09.engine_s_main(%r, %d), default=repr))'
                       % (tier, seed)],
                      cwd=_ROOT, env=env, capture_output=True, text=True, timeout=3000)
  i = p.stdout.rfind('@@ENGINE@@')
  if i < 0:
    return dict(coverage=dict(states=0, exhaustive=False), violations=[],
                infra=['engine S crashed: ' + (p.stderr or p.stdout)[-1500:]])
  res = _json.loads(p.stdout[i + len('@@ENGINE@@'):])
  res['violations'] = [('PENDING', 'c09_forced', v['kwargs'], v['text']) for v in res['violations']]
  return res


ENGINES = {'engine_s': engine_s}
