"""C09 - config scopes nest, are restored on every exit path (sequential half).

The thread half (scope stacks are private to a thread under every interleaving)
is Engine S: vf/sched (hooked in through ENGINES below).
"""
import gin
from vf import rt
from vf import world

KINDS = ["'a'", "'b/c'", "['x', 'y']", 'None', "''", "'1bad'", '42', "['ok', 'not ok']",
         "'a/'", '[]']
ENTRY = ['a', 'b/c', ['x', 'y'], None, '', '1bad', 42, ['ok', 'not ok'], 'a/', []]


class Boom(Exception):
  pass


def model_enter(cur, kind):
  """Reference: (valid?, new active scope) for entering ENTRY[kind] from `cur`."""
  e = ENTRY[kind]
  if kind in (0, 1):
    return True, cur + e.split('/')
  if kind in (2, 9):
    return True, list(e)
  if kind in (3, 4):
    return True, []
  return False, cur


def run_level(level, kinds, exits, depth, leaf, log):
  """Enters level `level`; returns False as soon as an observation disagrees."""
  before = gin.current_scope()
  if level == depth:
    if leaf == 1:      # a scoped configurable call replaces the scope inside, restores after
      gin.get_configurable('q/r/vw.dflt')()
      if world.LOG[-1][3] != ['q', 'r']:
        return False
    elif leaf == 2:    # an unscoped probe sees exactly the active scope
      world.dflt()
      if world.LOG[-1][3] != before:
        return False
    return gin.current_scope() == before
  # F-choices of a level are made lazily, only when the level is reached: the
  # body of an invalid entry never runs, so everything behind it is one path.
  kinds[level] = rt.pick(kinds[level], 10)
  exits[level] = rt.flag(exits[level])
  log.append((kinds[level], exits[level]))
  valid, inside = model_enter(before, kinds[level])
  ok = True
  raised = None
  try:
    with gin.config_scope(ENTRY[kinds[level]]) as s:
      if not valid:
        return False          # an invalid entry must not run the body
      if gin.current_scope() != inside or s != inside:
        return False
      if gin.current_scope_str() != '/'.join(inside):
        return False
      ok = run_level(level + 1, kinds, exits, depth, leaf, log)
      if gin.current_scope() != inside:
        return False
      if exits[level]:
        raise Boom()
  except Boom as e:
    raised = e
    if not exits[level]:
      return False
  except ValueError:
    if valid:
      return False
  if valid and exits[level] and raised is None and ok:
    return False
  if not ok:
    return False
  return gin.current_scope() == before


def c09_nest(depth: int, leaf: int, k0: int, k1: int, k2: int, k3: int,
             e0: bool, e1: bool, e2: bool, e3: bool) -> bool:
  """
  pre: 0 <= leaf < 3 and 0 <= k0 < 10 and 0 <= k1 < 10 and 0 <= k2 < 10 and 0 <= k3 < 10
  """
  world.fresh()
  leaf = rt.pick(leaf, 3)
  kinds = [k0, k1, k2, k3]
  exits = [e0, e1, e2, e3]
  log = []
  ok = run_level(0, kinds, exits, depth, leaf, log)
  rt.sig(('nest', depth, leaf, tuple(log)), nontrivial=len(log) >= 2)
  return ok and gin.current_scope() == [] and gin.current_scope_str() == ''


HARNESSES = {
    'c09_nest': dict(
        fn='c09_nest',
        anchors=['gin.config:config_scope', 'gin.config:enter_scope', 'gin.config:exit_scope',
                 'gin.config:_decorate_with_scope'],
        smoke=[dict(depth=3, leaf=1, k0=0, k1=2, k2=1, k3=0, e0=True, e1=False, e2=False, e3=False),
               dict(depth=3, leaf=2, k0=1, k1=3, k2=0, k3=0, e0=False, e1=True, e2=True, e3=False)],
        tiers={'quick': dict(split=dict(k0=list(range(10)), leaf=[0, 1, 2]),
                             fixed=dict(depth=3, k3=0, e3=False), budget_s=100),
               'thorough': dict(split=dict(k0=list(range(10)), k1=list(range(10)), leaf=[0, 1, 2]),
                                fixed=dict(depth=4), budget_s=900)},
        bounds='nesting depth 3 (quick) / 4 (thorough); 10 entry kinds per level (name, a/b shorthand, list, '
               'None, empty string, empty list, 4 invalid: bad identifier, non-string, list with a bad member, '
               'trailing slash); each level left normally or by an exception; innermost action: none / scoped '
               'get_configurable call / unscoped probe'),
}
