"""Concrete execution of a harness on given arguments, WITHOUT CrossHair.

usage: python -m vf.replay <module> <function> <json kwargs | @file> [--trace]

Prints `@@REPLAY@@ {"ok": bool, "error": str|None, "functions": [...]}`.
Run with /venv/bin/python (PYTHONPATH=/verif:/repo) so that what is reported as
a violation was observed on the real code with nothing of the symbolic
machinery loaded.
"""
import importlib
import json
import os
import sys

os.environ['VERIF_NO_CROSSHAIR'] = '1'
_ROOT = os.path.dirname(os.path.dirname(os.path.abspath(__file__)))


def run(modname, fname, kwargs, trace=False):
  from vf import rt
  mod = importlib.import_module(modname)
  fn = getattr(mod, fname)
  seen = set()

  def tracer(frame, event, arg):
    if event == 'call':
      co = frame.f_code
      f = co.co_filename
      if '/gin/' in f and not f.startswith(_ROOT):
        seen.add('gin.%s:%s' % (os.path.basename(f)[:-3], co.co_name))
    return None

  if os.environ.get('VERIF_EXPLAIN'):
    # development aid: report the harness line that returned False
    def tracer(frame, event, arg, _t=tracer):
      if frame.f_code.co_filename.startswith(os.path.join(_ROOT, 'vf', 'harness')):
        def local(fr, ev, a):
          if ev == 'return' and a is False:
            sys.stderr.write('RETURN False at %s:%d\n' % (fr.f_code.co_filename, fr.f_lineno))
          return local
        return local
      return None
    trace = True
  err = None
  if trace:
    sys.settrace(tracer)
  try:
    ok = fn(**kwargs)
  except rt.Discard:
    ok = True
  except rt.HarnessError as e:
    ok = None
    err = 'HarnessError: %s' % e
  except Exception as e:  # a harness exception is a failing path, as in rt.guard
    import traceback
    ok = False
    err = ''.join(traceback.format_exception(type(e), e, e.__traceback__)[-8:])
    tb = traceback.extract_tb(e.__traceback__)
    if isinstance(e, (ImportError, NotImplementedError)) and tb and tb[-1].filename.startswith(_ROOT):
      ok = None          # the harness itself is broken: infrastructure error, never a violation
    elif (isinstance(e, AttributeError) and tb and tb[-1].filename.startswith(_ROOT) and
          "module 'gin" in str(e)):
      # the harness reached for a private module-level name of gin that is not there (any more): the harness
      # does not fit this tree - an infrastructure error, not a statement about the property
      ok = None
  finally:
    sys.settrace(None)
  return {'ok': None if ok is None else bool(ok is True or (ok is not False and ok)), 'error': err,
          'functions': sorted(seen)}


def main(argv):
  modname, fname, arg = argv[0], argv[1], argv[2]
  if arg.startswith('@'):
    with open(arg[1:]) as f:
      data = json.load(f)
    kwargs = data.get('kwargs', data)
  else:
    kwargs = json.loads(arg)
  out = run(modname, fname, kwargs, trace='--trace' in argv)
  sys.stdout.write('\n@@REPLAY@@' + json.dumps(out) + '\n')


if __name__ == '__main__':
  main(sys.argv[1:])
