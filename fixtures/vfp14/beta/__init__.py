"""C14 fixture: regular sub-package WITHOUT .gin files."""
