"""C14 fixture: a plain module (not a package) next to vfp14/x.gin."""
