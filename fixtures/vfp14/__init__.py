"""C14 fixture: a regular package holding .gin files (package-relative names)."""
