"""C14 fixture: regular sub-package with .gin files."""
