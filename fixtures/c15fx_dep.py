"""c15fx_dep: a module that EXISTS but imports a dependency that does not (C15: the ImportError names
the dependency, not this module)."""
import c15fx_no_such_dependency_xyz  # noqa: F401  (deliberately missing)
