"""Fixture package for the C20 harness (dynamic registration before / after clear_config)."""
