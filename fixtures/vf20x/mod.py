"""vf20x.mod - plain functions, registered only through dynamic registration."""
CALLS = []


def fn(x=0, y=0):
  CALLS.append(('fn', x, y))
  return ('fn', x, y)


def consumer(p=None):
  CALLS.append(('consumer', p))
  return p
