"""Vfz.mod"""
CALLS = []


def fn(x=0, y=0):
  CALLS.append(('Vfz.fn', x, y))
  return ('Vfz.fn', x, y)
