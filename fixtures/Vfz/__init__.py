"""Fixture package whose name starts with an uppercase letter (sorts before `__gin__`): C19 only."""
