"""vfx.beta.mod: same-named members as vfx.alpha.mod"""
CALLS = []


def fn(x=0, y=0):
  CALLS.append(('beta.fn', x, y))
  return ('beta.fn', x, y)


class Cls:

  def __init__(self, x=0):
    CALLS.append(('beta.Cls', x))
    self.x = x
