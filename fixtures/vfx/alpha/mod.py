"""vfx.alpha.mod"""
CALLS = []


def fn(x=0, y=0):
  CALLS.append(('alpha.fn', x, y))
  return ('alpha.fn', x, y)


class Cls:

  def __init__(self, x=0):
    CALLS.append(('alpha.Cls', x))
    self.x = x

  def meth(self, m=0):
    CALLS.append(('alpha.Cls.meth', m))
    return ('alpha.meth', m)


class Outer:

  class Inner:

    def __init__(self, y=0):
      CALLS.append(('alpha.Outer.Inner', y))
      self.y = y


def consumer(p=None, q=None):
  CALLS.append(('alpha.consumer', p, q))
  return (p, q)
