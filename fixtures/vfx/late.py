"""vfx.late: importing this module registers a configurable under the Gin module path `vwlate`."""
import gin


@gin.configurable('late_fn', module='vwlate')
def late_fn(x=0):
  return ('late_fn', x)
