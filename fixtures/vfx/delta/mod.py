"""vfx.delta.mod: a third module whose leaf name is `mod`."""
CALLS = []


def fn(x=0, y=0):
  CALLS.append(('delta.fn', x, y))
  return ('delta.fn', x, y)
