"""vfx.gamma: decorator-registered configurable (statically registered at import)."""
import gin


@gin.configurable
def gfn(x=0):
  return ('gamma.gfn', x)
