"""vfx.zeta: decorator-registered configurables (statically registered at import)."""
import gin


@gin.configurable
def zfn(x=0):
  return ('zeta.zfn', x)


@gin.configurable
class ZCls:

  def __init__(self, x=0):
    self.x = x
