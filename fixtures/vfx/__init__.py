"""Fixture package for the dynamic-registration harnesses (C19, C15, C06)."""
