"""vfy.vfx: `from vfy import vfx` binds the name `vfx`, like `import vfx.alpha.mod` does."""
CALLS = []


def hfn(x=0):
  CALLS.append(('vfy.vfx.hfn', x))
  return ('vfy.vfx.hfn', x)
