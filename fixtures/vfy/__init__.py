"""Fixture package whose submodule name collides with the top-level package vfx."""
