"""vfw.deco: configurables registered by decorators when the module is imported."""
import gin

CALLS = []


@gin.configurable
def dfn(x=0):
  CALLS.append(('dfn', x))
  return ('dfn', x)


@gin.configurable
class DCls:

  def __init__(self, x=0):
    CALLS.append(('DCls', x))
    self.x = x

  def dmeth(self, m=0):
    CALLS.append(('DCls.dmeth', m))
    return ('dmeth', m)


@gin.configurable('renamed_fn', module='vw19r')
def rfn(x=0):
  """Registered name and module differ from __name__ / __module__."""
  CALLS.append(('rfn', x))
  return ('rfn', x)
