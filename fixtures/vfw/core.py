"""vfw.core: one object reachable by several attribute paths, several kinds of methods."""
CALLS = []


def fn(x=0, y=0):
  CALLS.append(('fn', x, y))
  return ('fn', x, y)


fn2 = fn           # module-level alias of the same function object


class Cls:

  def __init__(self, x=0):
    CALLS.append(('Cls', x))
    self.x = x

  def meth(self, m=0):
    CALLS.append(('Cls.meth', m))
    return ('meth', m)

  def meth2(self, m=0):
    CALLS.append(('Cls.meth2', m))
    return ('meth2', m)

  @staticmethod
  def smeth(m=0):
    CALLS.append(('Cls.smeth', m))
    return ('smeth', m)


class Sub(Cls):
  """Inherits meth/meth2/smeth: Sub.meth is the very function object Cls.meth."""

  def __init__(self, x=0):
    CALLS.append(('Sub', x))
    self.x = x


class Outer:

  class Inner:

    def __init__(self, y=0):
      CALLS.append(('Outer.Inner', y))
      self.y = y

    def meth(self, m=0):
      CALLS.append(('Outer.Inner.meth', m))
      return ('inner_meth', m)


def consumer(p=None, q=None):
  CALLS.append(('consumer', p, q))
  return (p, q)
