"""Fixture package for the widened C19 harnesses: its __init__ re-exports a member of a submodule."""
from vfw.core import fn   # re-export: vfw.fn and vfw.core.fn are ONE object
