"""vfw.sib.two: sibling of vfw.sib.one with same-named members."""
CALLS = []


def fn(x=0):
  CALLS.append(('two.fn', x))
  return ('two.fn', x)
