"""vfw.sib.one: sibling of vfw.sib.two with same-named members."""
CALLS = []


def fn(x=0):
  CALLS.append(('one.fn', x))
  return ('one.fn', x)
