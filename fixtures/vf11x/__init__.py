"""Fixture package of the C11 harness (vf/harness/c11.py): configurables that are ALREADY decorated, with lists,
and are then addressed through dynamic registration (`import vf11x.mod as dm`)."""
