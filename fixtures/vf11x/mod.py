"""vf11x.mod - decorated at import under the Gin module path `vf11xdec` (see vf/harness/c11.py, c11_dynamic)."""
import gin

CALLS = []


@gin.configurable(module='vf11xdec', denylist=['y'])
def dfn(x=0, y=0):
  CALLS.append(('dfn', x, y))
  return (x, y)


@gin.configurable(module='vf11xdec', allowlist=['x'])
class ACls:

  def __init__(self, x=0, y=0):
    CALLS.append(('ACls', x, y))
