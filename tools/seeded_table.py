#!/usr/bin/env python3
"""Regenerates the seeded-change table of DESIGN.md section 0.5 from seeded/*/meta.json."""
import glob, json, os, re
ROOT = os.path.dirname(os.path.dirname(os.path.abspath(__file__)))
rows = []
for f in sorted(glob.glob(os.path.join(ROOT, 'seeded', '*', 'meta.json'))):
  m = json.load(open(f))
  runs = m.get('check_runs', [])
  first, last = runs[0], runs[-1]
  note = (m.get('summary') or m.get('needs_to_manifest', '')).strip().split('\n')[0][:150]
  rows.append('| %s | %s | %s | %s | %s | %s |' % (
      m['name'], m['breaks_property'], note.replace('|', '/'),
      'caught' if first['violations'] else 'MISSED',
      ('no longer a breaking change: ' + m['neutralised']) if m.get('neutralised') else
      (('caught (%d violations, %ds)' % (last['violations'], last['wall_s'])) if last['violations'] else 'MISSED'),
      m.get('strengthening', '-').replace('|', '/')))
table = ['| change | property | what it is (first line of the author\'s notes) | first run of the check as it was | current check (quick) | what was strengthened |',
         '|---|---|---|---|---|---|'] + rows
n = len(rows)
c0 = sum(1 for r in rows if '| caught |' in r)
c1 = sum(1 for r in rows if 'caught (' in r)
cn = sum(1 for r in rows if 'no longer a breaking change' in r)
text = ('%d changes written by independent sub-agents (each saw only the property text and a scratch worktree), '
        'all confirmed by me in a scratch worktree (test suite unchanged: 128 pass; demo exits 1 with the change, 0 without). '
        '%d were caught by the quick check as it stood when the change arrived, %d are caught by the current quick checks'
        '%s.\n\n'
        % (n, c0, c1, (' and %d no longer break the property on the repaired tree' % cn) if cn else '')) + '\n'.join(table) + '\n'
p = os.path.join(ROOT, 'DESIGN.md')
s = open(p).read()
if 'SEEDED_TABLE_PLACEHOLDER' in s:
  s = s.replace('SEEDED_TABLE_PLACEHOLDER', '<!-- seeded table begin -->\n' + text + '<!-- seeded table end -->')
else:
  s = re.sub(r'<!-- seeded table begin -->.*<!-- seeded table end -->',
             lambda m_: '<!-- seeded table begin -->\n' + text + '<!-- seeded table end -->', s, flags=re.S)
open(p, 'w').write(s)
print(n, c0, c1)
