ENGINES = [
    {'name': 'X', 'path': 'vf/runner.py, vf/worker.py, vf/harness/', 'serves_properties': [], 'kind_free_text': 'CrossHair 0.0.110 + z3: symbolic execution of a harness and of the real gin code it drives; F-inputs forked exhaustively within stated bounds, S-inputs (values) kept as unbounded solver variables; counterexamples replayed on /repo without CrossHair'},
]
NOTES = ('Solver-based bounded checking of the real code. Exit 0 = held on everything explored, 1 = replayed violation, '
         '2 = infrastructure error (never with a VIOLATION line). See DESIGN.md.')
NOT_APPLICABLE = {}
X_NOTE = ('Trusted: CrossHair path-tree exhaustion and its int/bool/container models (two shims listed in the evidence), z3 5.1, CPython 3.12; '
          'the reference model in the harness. Counterexamples are never trusted: each is re-run with plain /venv/bin/python.')
CHECKS = {
    'C01': dict(
        text='Bounded model checking by symbolic execution of the real wrapper/scope code: every signature shape x binding set x scope stack x argument split within the bound is a path (exhausted, CONFIRMED), and on each path the received arguments are proved equal to the reference overlay for ALL integer values at once.',
        note=X_NOTE,
        technique='CrossHair/z3 symbolic execution of gin_wrapper, _get_bindings, config_scope with symbolic values; exhaustive bounded shape space'),
    'C10': dict(
        text='Bounded model checking by symbolic execution of the real wrapper: every placement of REQUIRED (positional, keyword, signature default, **kwargs names, *args tail) x binding subset x scope within the bound is a path; on each the arguments received (or the RuntimeError and its ordered list of unfilled names) are proved equal to the reference for all integer values. Registration-time validation is explored over all allow/deny lists x 3 APIs.',
        note=X_NOTE,
        technique='CrossHair/z3 symbolic execution of gin_wrapper REQUIRED handling and _get_validated_required_kwargs; exhaustive bounded placement space'),
    'C12': dict(
        text='Inductive single-step bounded model checking of the lock automaton on the real code: from every (locked, bound) pre-state one arbitrary operation (bind, parse, register, finalize, clear, unlock_config with 6 body shapes incl. raising and nested) is executed symbolically and compared with the reference transition; finalize is explored over hook behaviours x spellings x config faults with symbolic hook values.',
        note=X_NOTE + ' Values that Gin itself stringifies on an error path (config_str() inside two finalize error messages) are concrete.',
        technique='CrossHair/z3 symbolic execution of finalize/unlock_config/bind_parameter/_make_configurable; inductive step over lock states'),
    'C08': dict(
        text='Inductive single-step bounded model checking of SelectorMap on the real code: from the canonical trie of every subset of a 7/10-name vocabulary (names that are suffixes of other names included) one arbitrary operation is executed and the result must again be the canonical trie and answer every query like the set-of-names reference (exact-match precedence, unique/ambiguous/unknown, minimal selector resolves back and no shorter suffix does, copies independent). The API half proves, for all integer values, that every unambiguous spelling of a parameter is one key through bind/query/get_bindings/calls.',
        note=X_NOTE + ' The SelectorMap half handles only concrete strings: the solver certifies that the bounded state x operation space was covered completely and decides the stored values; the observation battery runs natively.',
        technique='CrossHair/z3 exhaustive path exploration of SelectorMap operations from symbolic valid pre-states (inductive step) + symbolic-value execution of ParsedBindingKey.parse/bind/query'),
    'C04': dict(
        text='Bounded model checking by symbolic execution of the real wrapper/deepcopy/scoping code: every placement of one or two references in nested containers x evaluated or not x reference scope x ambient scope x caller override mode x 1-3 calls x consumer mutation is a path; call counts, observed scopes, freshness (is not) and the value delivered are proved against the reference for all integer source values.',
        note=X_NOTE + ' Config text is concrete and parsed natively; source values reach the probes through Gin constants so that they stay symbolic.',
        technique='CrossHair/z3 symbolic execution of gin_wrapper, ConfigurableReference.__deepcopy__, _decorate_with_scope; exhaustive bounded placement space'),
    'C05': dict(
        text='Bounded model checking: every order of up to two definitions and two uses of a macro across parse calls, 3 macro names and 4 ways of binding it, with the value proved to be the last one bound for all integers; constants: every order of 3-4 definitions from a 9-name family with shared suffixes x 9 query spellings, identity of the delivered object, ambiguity/duplicate/invalid errors, finalize rejection of unbound and unevaluated macros.',
        note=X_NOTE,
        technique='CrossHair/z3 symbolic execution of macro/constant resolution (ParserDelegate.macro, constant, _retrieve_constant, validate_macros_hook) with symbolic macro values'),
    'C09': dict(
        text='Bounded model checking of the scope stack on the real code: every nesting of depth 3 (quick) / 4 (thorough) over 10 entry kinds (4 of them invalid), each level left normally or by an exception, with a scoped or unscoped configurable call innermost; current_scope()/current_scope_str() inside and after every block equal the stack-automaton reference.',
        note=X_NOTE + ' Thread half of C09 (privacy of the stack under interleavings) is not claimed by this check yet.',
        technique='CrossHair/z3 exhaustive path exploration of config_scope/_ScopeManager over symbolic entry kinds (lazy choice per level)'),
    'C11': dict(
        text='Inductive single-step bounded model checking on the real code: from an arbitrary subset of existing bindings (symbolic values) one attempted binding over 15 (configurable, parameter) cases x 7 API paths is executed; rejected attempts raise ValueError and leave the binding store identical (and a later call never receives the name), accepted ones change exactly one key, proved for all integer values.',
        note=X_NOTE + ' The binding store is snapshotted through the private gin.config._CONFIG (config_str() would stringify symbolic values).',
        technique='CrossHair/z3 symbolic execution of ParsedBindingKey.parse, bind_parameter, parse_config statement application and finalize hook merging'),
    'C20': dict(
        text='Inductive single-step bounded model checking of clear_config on the real code: the pre-state is any combination of 7 history ingredients (bindings, import, operative record, finalized, singleton, failed parse, failed bind) x 5 constant sets incl. interactive-mode definitions with overlapping suffixes; after clear_config the config string, operative string, lock, queries, probe calls, singleton cache and constants equal the pristine baseline.',
        note=X_NOTE,
        technique='CrossHair/z3 exhaustive path exploration of clear_config from symbolic pre-states built through the public API'),
    'C02': dict(
        text='Bounded model checking of the real statement/value parser through a tokenizer seam: the value is a lazily chosen symbolic token stream of at most 4 tokens over a 19-kind (quick) / 36-kind (thorough) vocabulary, so every parser-distinguishable sequence within the bound is one path and the path tree is exhausted; accepted values must equal (value and type) the reference grammar of the property and ast.literal_eval; the parser may reject only dead prefixes / non-sentences, with a Syntax/Token error.',
        note=X_NOTE + ' The C tokenizer is an environment stub with a checked contract: every finished path is re-tokenised by the real tokenizer and re-parsed through the real tokenizer-driven parse_config and must agree (a disagreement is an infrastructure error, not a finding).',
        technique='CrossHair/z3 path exploration of ConfigParser.parse_statement/parse_value over a symbolic token stream (tokenizer stub), differential oracle = literal grammar + ast.literal_eval'),
    'C03': dict(
        text='Bounded exhaustive checking with a solver completeness certificate: every (statement kinds, layout feature combination) within the bound is rendered to text by a layout model and parsed by the real tokenizer+parser; the statement stream (scope, selector, parameter, value / module, from, alias / filename) and each statement line number must equal the canonical list and the resulting configuration must equal that of the canonical flat layout. Selector scanning is explored over all token/gap sequences of length 4-5 in 6 contexts: accepted iff gap-free and well-formed, never repaired.',
        note=X_NOTE + ' Weakest use of the technique (DESIGN.md section 3): after the F-choices are made everything is concrete text processed natively; the solver certifies that the bounded choice space was covered completely (CONFIRMED).',
        technique='CrossHair/z3 exhaustive path exploration over layout/selector choice vectors; real tokenizer+parser run per leaf against a layout reference model'),
    'C16': dict(
        text='Bounded model checking of failed parses on the real code: 3 good statements (symbolic values through constants) with one of 13 fault kinds injected at every position, at include depth 0-2 (in-memory files behind Gin\'s reader interface), with leading blank/comment lines, ambient scope and a finalized config re-opened by unlock_config; the binding store after the failure must equal the prefix applied to a cleared config (for all integer values), scope/lock/parse-context stack restored, exception class preserved, file and line named once per include level, provenance of surviving bindings exact, and the remaining statements parse afterwards as after the prefix alone.',
        note=X_NOTE + ' Interpretations in DESIGN.md section 9 (block-level atomicity of syntactic faults, line of an unknown reference).',
        technique='CrossHair/z3 exhaustive path exploration over fault kind x position x include depth x context with symbolic statement values; reference = re-parse of the prefix'),
    'C14': dict(
        text='Bounded model checking on the real code: include trees over 3 in-memory files (4 shapes) with conflicting bindings before, between and after the includes, final value proved to be the last writer of the flattened text for all integer values, returned tree and imports mirrored, config string equal to a parse of the flattened text; file resolution with the existence of the file per (location, reader) as SYMBOLIC booleans returned by the readers\' own existence checks, so the resolution loop itself forks and the first-location/first-reader rule is decided by the solver; the multi-file entry point order (files, bindings, finalize) and the default skip_unknown of all three entry points.',
        note=X_NOTE + ' Files live behind gin.register_file_reader; real disk files and the package reader are outside.',
        technique='CrossHair/z3 symbolic execution of parse_config_file resolution loop with symbolic existence checks; exhaustive include-tree/binding placement space with symbolic values'),
    'C15': dict(
        text='Bounded exhaustive checking with a solver completeness certificate: every sequence of 3-4 statements from 9 kinds x 8 forms of skip_unknown is parsed by the real code; the binding store must equal the reference obtained by deleting skipped statements (placeholders compared by selector and evaluate), uncovered unknowns raise the same error class as without skipping, known bindings are applied (for all integer values), placeholders raise when used and at finalize.',
        note=X_NOTE + ' Static registration only; dynamic registration is covered by the C19 fixture harness where stated.',
        technique='CrossHair/z3 exhaustive path exploration over statement-kind sequences and skip_unknown forms; reference = text deletion model'),
    'C17': dict(
        text='Bounded model checking of exception propagation through the real wrapper and proxy code: 25 exception classes (16 builtin families incl. ExceptionGroup, 7 user classes with required __init__/__new__ arguments, extra attributes, __slots__, custom __str__, properties) x 5 ways of raising (direct, nested, while evaluating a reference, under scopes); the caught object must be catchable by the original class, keep the original traceback frames and read equal on every public non-callable attribute of the original for ALL integer payloads; message = original text + suffix naming configurable and scope (concrete payloads); non-Exception BaseExceptions arrive as the very object.',
        note=X_NOTE + ' One listed known finding (class whose __new__ arguments cannot be recovered from .args is re-raised without the message suffix).',
        technique='CrossHair/z3 symbolic execution of gin_wrapper exception path and utils.augment_exception_message_and_reraise with symbolic payloads'),
    'C13': dict(
        text='Bounded model checking of registration on the real code: 13 callable/class shapes x 3 registration APIs x scoped or not; register returns the very object and vars(cls) is untouched, direct calls are never injected while the registry version (by object, by selector, returned wrapper, evaluated reference) receives the bound value for ALL integers, name/doc/module/signature preserved, issubclass/isinstance/exact type/pickle round trip; 7 kinds of rejected registration leave the registry listing unchanged; interactive mode ends with its block even when the body raised.',
        note=X_NOTE + ' Class creation, pickle and inspect are CPython C code executed natively.',
        technique='CrossHair/z3 symbolic execution of _make_configurable/_decorate_fn_or_cls/gin_wrapper over shape x API choices with a symbolic bound value'),
    'C06': dict(
        text='(i) decides data: for 7 catalogue values the pprint width is an UNBOUNDED symbolic integer through the real pprint code and every layout is proved to parse back to the same value and type; (ii) bounded exhaustive with solver completeness certificate: every subset of 3-4 items of a 25-item binding catalogue in 3 binding orders, and every (continuation_indent, max_line_length) of a 4 x 52 grid, through the real config_str/parse_config: text parses into a cleared config, representable bindings and imports restored with equal value and type, second serialisation identical, text independent of binding order, sections alphabetical with sorted parameters, unrepresentable values omitted, markdown keeps binding lines.',
        note=X_NOTE + ' One listed known finding (comment-only "# None." section is not reproduced). The combination of the width lemma with the two line wrappers is an argument, not a single solver verdict.',
        technique='CrossHair/z3 symbolic execution of pprint.pformat with a symbolic width + exhaustive path exploration over catalogue subsets/orders/widths through _config_str and the parser'),
    'C07': dict(
        text='Bounded exhaustive checking with a solver completeness certificate: 1-2 calls over 5 probes x scopes x caller argument modes x 9 bound value kinds x binding placement; operative_config_str() is parsed back and must contain exactly the called (scope, configurable) sections, exactly the Gin-supplied representable configurable parameters with the most recent value, macro definitions for used macros and no constant lookups; clearing, parsing the text and repeating the calls must give every probe the same arguments and reproduce the text.',
        note=X_NOTE + ' The record is observed through a stringifier, so all inputs are finite choices; leaves run natively.',
        technique='CrossHair/z3 exhaustive path exploration over call/binding scenarios through gin_wrapper operative bookkeeping and operative_config_str; reference = operative-record model + replay'),
    'C19': dict(
        text='Bounded model checking of dynamic registration on the real code against a committed fixture package: 4 target objects (function, class, nested class, method) x 5 import forms in each of two files (incl. colliding bound names and a same-named sibling package) x 3 file structures x reference-before-binding; the very Python object is configured (value proved for all ints), spellings address one entry, existing references keep working, the config string re-parses to the same keys and objects; 9 error cases give the stated exception class; a method configured after its class was referenced, from the same or another file.',
        note=X_NOTE + ' One listed known finding (method configured from a file using a different alias -> NameError). Import machinery and attribute lookup are native CPython.',
        technique='CrossHair/z3 exhaustive path exploration over import-form/structure choices through ParseContext (process_import, _resolve_selector, _register) with symbolic bound values'),
}
