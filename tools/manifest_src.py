ENGINES = [
    {'name': 'X', 'path': 'vf/runner.py, vf/worker.py, vf/harness/', 'serves_properties': [], 'kind_free_text': 'CrossHair 0.0.110 + z3: symbolic execution of a harness and of the real gin code it drives; F-inputs forked exhaustively within stated bounds, S-inputs (values) kept as unbounded solver variables; counterexamples replayed on /repo without CrossHair'},
]
NOTES = ('Solver-based bounded checking of the real code. Exit 0 = held on everything explored, 1 = replayed violation, '
         '2 = infrastructure error (never with a VIOLATION line). See DESIGN.md.')
NOT_APPLICABLE = {}
X_NOTE = ('Trusted: CrossHair path-tree exhaustion and its int/bool/container models (two shims listed in the evidence), z3 5.1, CPython 3.12; '
          'the reference model in the harness. Counterexamples are never trusted: each is re-run with plain /venv/bin/python.')
CHECKS = {
    'C01': dict(
        text='Bounded model checking by symbolic execution of the real wrapper/scope code: every signature shape x binding set x scope stack x argument split within the bound is a path (exhausted, CONFIRMED), and on each path the received arguments are proved equal to the reference overlay for ALL integer values at once.',
        note=X_NOTE,
        technique='CrossHair/z3 symbolic execution of gin_wrapper, _get_bindings, config_scope with symbolic values; exhaustive bounded shape space'),
}
