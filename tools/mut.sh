#!/bin/bash
# development aid: tools/mut.sh <ID> <python-expr-old> <new>  -- replaces text in /repo/gin/*.py, runs the quick check, reverts
ID=$1; shift
if [ -n "$(git -C /repo status --porcelain --untracked-files=no)" ]; then echo 'refusing: /repo has uncommitted changes'; exit 3; fi
python3 - "$@" <<'P'
import sys,glob
old,new=sys.argv[1],sys.argv[2]
n=0
for f in glob.glob('/repo/gin/*.py'):
    s=open(f).read()
    if old in s:
        open(f,'w').write(s.replace(old,new,1)); n+=1; break
print('mutated files:',n)
P
cd /verif && bin/check $ID quick 2>&1 | grep -E "VIOLATION|HARNESS-ERROR|KNOWN|quick:" | head -5
git -C /repo checkout -- .
# restore evidence: what is committed must come from runs on the unchanged tree
git -C /verif checkout -- evidence 2>/dev/null; git -C /verif clean -fdq evidence/replays 2>/dev/null
