#!/usr/bin/env python3
"""Regenerates the table of DESIGN.md section 0.4 from evidence/*.json (run after a clean quick sweep)."""
import json, os, re
ROOT = os.path.dirname(os.path.dirname(os.path.abspath(__file__)))
rows = []
for i in range(1, 21):
  pid = 'C%02d' % i
  p = os.path.join(ROOT, 'evidence', pid + '.json')
  if not os.path.exists(p):
    continue
  d = json.load(open(p))
  c = d['coverage']
  hs = ', '.join('%s (%d)' % (x['harness'], x['partitions']) for x in c.get('partitions', []))
  eng = c.get('engines') or {}
  if eng:
    hs += '; ' + ', '.join('engine %s' % k for k in eng)
  rows.append('| %s | %s | %s | %d | %d | %d k | %.0f s | %s |' % (
      pid, d.get('tier'), hs, c.get('states', 0), c.get('distinct_nontrivial', 0),
      round(c.get('queries', 0) / 1000), d.get('wall_s', 0), len(c.get('known_findings_reported', []))))
table = ('| ID | tier | harnesses (partitions) | paths | distinct non-trivial cases | solver queries | wall | listed findings |\n'
         '|---|---|---|---|---|---|---|---|\n' + '\n'.join(rows))
path = os.path.join(ROOT, 'DESIGN.md')
s = open(path).read()
b, e = '<!-- bounds table begin -->', '<!-- bounds table end -->'
s = s[:s.index(b) + len(b)] + '\n' + table + '\n' + s[s.index(e):]
open(path, 'w').write(s)
print(table)
