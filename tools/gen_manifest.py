#!/usr/bin/env python3
"""Regenerates MANIFEST.json from tools/manifest_src.py (kept valid at all times)."""
import json, os, sys
ROOT = os.path.dirname(os.path.dirname(os.path.abspath(__file__)))
sys.path.insert(0, os.path.join(ROOT, 'tools'))
import manifest_src as M
props = [json.loads(l) for l in open(os.path.join(ROOT, 'properties.jsonl'))]
checks, na = [], []
for p in props:
  pid = p['id']
  c = M.CHECKS.get(pid)
  if c is None:
    na.append({'property_id': pid, 'reason': M.NOT_APPLICABLE.get(pid, 'check not built yet in this session (work in progress); no claim is made')})
    continue
  checks.append({
      'property_id': pid,
      'quick_cmd': 'bin/check %s quick' % pid,
      'thorough_cmd': 'bin/check %s thorough' % pid,
      'evidence_file': 'evidence/%s.json' % pid,
      'replay_cmd_template': 'bin/check --replay {path}',
      'engine': c.get('engine', 'X'),
      'level_claimed': {'category': 'model_checking', 'text': c['text'], 'design_ref': c.get('design_ref', 'DESIGN.md section 6 ' + pid)},
      'level_note': c['note'],
      'technique': c['technique'],
  })
man = {
    'version': 1,
    'setup_cmd': 'bin/ensure_env',
    'hooks': {'guard': 'GIN_CONFIG_VERIF', 'enable': 'no source hooks are needed: probes, proxies and the tokenizer seam are installed from the harness side (GIN_CONFIG_VERIF is reserved and unused)', 'baseline_off_cmd': 'cd /repo && /venv/bin/python -m pytest -ra -q -p no:cacheprovider --timeout=900 --continue-on-collection-errors', 'source_commits': [], 'add_only': True},
    'engines': M.ENGINES,
    'checks': checks,
    'notes': M.NOTES,
    'not_applicable': na,
}
json.dump(man, open(os.path.join(ROOT, 'MANIFEST.json'), 'w'), indent=1)
import jsonschema
jsonschema.validate(man, json.load(open('/root/.vp/MANIFEST.schema.json')))
print('MANIFEST ok:', len(checks), 'checks,', len(na), 'not applicable')
