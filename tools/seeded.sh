#!/bin/bash
# tools/seeded.sh <src dir with patch.diff demo.py notes.txt> <name> <PROPERTY> [tier]
# 1. confirms the change independently in a scratch worktree (tests still pass, demo fails with / passes without)
# 2. stores it under /verif/seeded/<name>/
# 3. applies it to /repo, runs the property's check, reverts, and records everything in meta.json
set -u
SRC=$1; NAME=$2; PID=$3; TIER=${4:-quick}
if [ -n "$(git -C /repo status --porcelain --untracked-files=no)" ]; then echo 'refusing: /repo has uncommitted changes'; exit 3; fi
WT=/tmp/sv_$NAME
git -C /repo worktree remove --force $WT 2>/dev/null
git -C /repo worktree add -q --detach $WT HEAD || exit 3
cd $WT
PYTHONPATH=$WT /venv/bin/python $SRC/demo.py >/tmp/sv_$NAME.pristine.out 2>&1; PRISTINE=$?
if ! git apply $SRC/patch.diff; then echo "patch does not apply"; git -C /repo worktree remove --force $WT; exit 3; fi
TESTS=$(PYTHONPATH=$WT /venv/bin/python -m pytest -q -p no:cacheprovider --timeout=900 --continue-on-collection-errors tests/config_test.py tests/config_parser_test.py tests/selector_map_test.py tests/resource_reader_test.py 2>&1 | tail -1)
PYTHONPATH=$WT /venv/bin/python $SRC/demo.py >/tmp/sv_$NAME.changed.out 2>&1; CHANGED=$?
cd /verif
git -C /repo worktree remove --force $WT
rm -rf /repo/.pytest_cache
mkdir -p /verif/seeded/$NAME
cp $SRC/patch.diff $SRC/demo.py /verif/seeded/$NAME/
[ -f $SRC/notes.txt ] && cp $SRC/notes.txt /verif/seeded/$NAME/
echo "pristine demo exit=$PRISTINE changed demo exit=$CHANGED tests: $TESTS"
# run the check against the change
git -C /repo apply /verif/seeded/$NAME/patch.diff || { echo "apply to /repo failed"; exit 3; }
T0=$(date +%s)
OUT=$(bin/check $PID $TIER 2>&1); RC=$?
T1=$(date +%s)
git -C /repo checkout -- .
# restore evidence: what is committed must come from runs on the unchanged tree
git -C /verif checkout -- evidence 2>/dev/null; git -C /verif clean -fdq evidence/replays 2>/dev/null
NV=$(echo "$OUT" | grep -c '^VIOLATION')
FIRST=$(echo "$OUT" | grep -A1 '^VIOLATION' | head -2 | tr '\n' ' ' | cut -c1-400)
echo "check $PID $TIER: exit=$RC violations=$NV wall=$((T1-T0))s"
python3 - "$NAME" "$PID" "$TIER" "$PRISTINE" "$CHANGED" "$TESTS" "$RC" "$NV" "$((T1-T0))" "$FIRST" <<'P'
import json,sys,os
name,pid,tier,pr,ch,tests,rc,nv,wall,first=sys.argv[1:11]
p='/verif/seeded/%s/meta.json'%name
meta=json.load(open(p)) if os.path.exists(p) else {}
meta.update({'name':name,'breaks_property':pid,
  'confirmed':{'demo_exit_pristine':int(pr),'demo_exit_with_change':int(ch),'test_suite_with_change':tests,
               'how':'scratch worktree of /repo HEAD outside /repo and /verif; PYTHONPATH=<worktree> /venv/bin/python demo.py; the 4 test files of the pinned suite'},
  'needs_to_manifest': open('/verif/seeded/%s/notes.txt'%name).read()[:1500] if os.path.exists('/verif/seeded/%s/notes.txt'%name) else ''})
runs=meta.setdefault('check_runs',[])
runs.append({'cmd':'bin/check %s %s'%(pid,tier),'exit':int(rc),'violations':int(nv),'wall_s':int(wall),'first_violation':first})
json.dump(meta,open(p,'w'),indent=1)
P
