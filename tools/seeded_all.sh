#!/bin/bash
# re-evaluates every stored seeded change against the current quick check of its property
cd /verif
for d in seeded/*/; do
  n=$(basename $d)
  pid=$(python3 -c "import json;print(json.load(open('$d/meta.json'))['breaks_property'])")
  echo "== $n ($pid)"
  tools/seeded.sh /verif/$d $n $pid 2>&1 | tail -1
done
